import StockpylModel.Model.Basic
/-
Executable model of `stockpyl.sim` for single-product networks (every node has only its dummy
product; each predecessor supplies one raw material with network-BOM number 1) — the space of C06.

Written from the tutorial's "Sequence of Events" / "Lead Times" and the docstrings, then
reconciled with sim.py; every reconciliation is marked `RECONCILED:` below.

Representation.  Nodes are positions `0..n-1` in `network.nodes` order.  Every quantity that the
Python code indexes by (node, predecessor) or (node, successor) lives in ONE record per *edge*:
the customer-side fields (inbound shipment pipeline, on-order, raw material, …) that Python keeps
in the downstream node's `state_vars`, and the supplier-side fields (inbound order pipeline,
backorders, outbound shipment, …) that Python keeps in the upstream node's `state_vars`.
The external supplier / external customer are edges with `src = none` / `dst = none`.
A node's in-edges are listed in `_predecessor_indices ++ [None]` order, its out-edges in
`_successor_indices ++ [None]` order, exactly the iteration orders of the code.
-/
namespace Stockpyl.Sim

inductive Policy where
  | BS (S : Rat)
  | sS (s S : Rat)
  | rQ (r Q : Rat)
  | FQ (Q : Rat)
  | EBS (S : Rat)
deriving Repr, DecidableEq

inductive DType where
  | OP | SP | TP | RP
deriving Repr, DecidableEq

structure Edge where
  src : Option Nat
  dst : Option Nat
deriving Repr, DecidableEq

structure NodeCfg where
  inE : List Nat
  outE : List Nat
  slt : Nat
  olt : Nat
  policy : Policy
  cap : Option Rat          -- order_capacity (None or 0 ⇒ unbounded)
  dtype : Option DType      -- disruption type, if the node has a disruption process
  h : Rat                   -- local_holding_cost or 0
  p : Rat                   -- stockout_cost or 0
  hTransit : Option Rat     -- in_transit_holding_cost (None ⇒ use h; 0 is NOT None)
  rev : Rat                 -- revenue or 0
  initIL : Option Rat
  initOrders : Rat
  initShipments : Rat
  hFn : Option (List Rat) := none   -- local_holding_cost_function as polynomial coefficients (lowest degree first)
  pFn : Option (List Rat) := none   -- stockout_cost_function, evaluated at the (signed) ending inventory level
deriving Repr

/-- Polynomial `c₀ + c₁x + c₂x² + …` (Horner). The harness uses polynomial cost functions so that the model can
evaluate exactly what the Python callable computes. -/
def polyEval : List Rat → Rat → Rat
  | [], _ => 0
  | c :: cs, x => c + x * polyEval cs x

structure Net where
  nodes : List NodeCfg
  edges : List Edge
deriving Repr

structure EdgeSt where
  -- customer side (kept by Python in the downstream node's state variables)
  ispl : List Rat := []     -- inbound_shipment_pipeline[pred][rm]
  is_ : Rat := 0            -- inbound_shipment
  oo : Rat := 0             -- on_order_by_predecessor
  idi : Rat := 0            -- inbound_disrupted_items
  oq : Rat := 0             -- order_quantity
  rm : Rat := 0             -- raw_material_inventory[rm]
  -- supplier side (kept by Python in the upstream node's state variables)
  iopl : List Rat := []     -- inbound_order_pipeline[succ][prod]
  io : Rat := 0             -- inbound_order
  os : Rat := 0             -- outbound_shipment
  bo : Rat := 0             -- backorders_by_successor
  odi : Rat := 0            -- outbound_disrupted_items
deriving Repr, DecidableEq

structure NodeSt where
  il : Rat := 0
  oqfg : Rat := 0
  pfg : Rat := 0
  dcum : Rat := 0           -- demand_cumul
  dmfs : Rat := 0
  dmfsCum : Rat := 0
  fill : Rat := 0
  disrupted : Bool := false
  hc : Rat := 0
  sc : Rat := 0
  ithc : Rat := 0
  rv : Rat := 0
  tc : Rat := 0
  newFG : Rat := 0          -- ghost: finished goods produced this period (return value of
                            -- `_raw_materials_to_finished_goods`; not a stored state variable)
deriving Repr, DecidableEq

structure State where
  nodes : List NodeSt
  edges : List EdgeSt
deriving Repr, DecidableEq

/-! ### access helpers -/

def Net.cfg (net : Net) (n : Nat) : NodeCfg :=
  net.nodes.getD n { inE := [], outE := [], slt := 0, olt := 0, policy := .FQ 0, cap := none, dtype := none,
                     h := 0, p := 0, hTransit := none, rev := 0, initIL := none, initOrders := 0, initShipments := 0 }

def Net.edge (net : Net) (e : Nat) : Edge := net.edges.getD e ⟨none, none⟩

def State.node (st : State) (n : Nat) : NodeSt := st.nodes.getD n {}
def State.edge (st : State) (e : Nat) : EdgeSt := st.edges.getD e {}

def State.modNode (st : State) (n : Nat) (f : NodeSt → NodeSt) : State :=
  { st with nodes := st.nodes.modify n f }
def State.modEdge (st : State) (e : Nat) (f : EdgeSt → EdgeSt) : State :=
  { st with edges := st.edges.modify e f }

/-- Apply `f` to every edge in the list `es`, left to right. -/
def State.modEdges (st : State) (es : List Nat) (f : Nat → EdgeSt → EdgeSt) : State :=
  es.foldl (fun s e => s.modEdge e (f e)) st

def lmin : List Rat → Rat
  | [] => 0
  | [x] => x
  | x :: xs => min x (lmin xs)

/-- `l[i] += x` (no-op when `i` is out of range — never the case for well-formed nets). -/
def addAt (l : List Rat) (i : Nat) (x : Rat) : List Rat := l.modify i (· + x)

/-- Internal successors / predecessors of node `n` (positions). -/
def Net.succs (net : Net) (n : Nat) : List Nat :=
  (net.cfg n).outE.filterMap fun e => (net.edge e).dst
def Net.preds (net : Net) (n : Nat) : List Nat :=
  (net.cfg n).inE.filterMap fun e => (net.edge e).src

def isDisr (net : Net) (st : State) (n : Nat) (d : DType) : Bool :=
  (st.node n).disrupted && (net.cfg n).dtype == some d

/-! ### policy (policy.py:423-521, single product) -/

def Policy.qty (ip : Rat) : Policy → Rat
  | .BS S => max 0 (S - ip)
  | .sS s S => if ip ≤ s then S - ip else 0
  | .rQ r Q => if ip ≤ r then Q else 0
  | .FQ Q => Q
  | .EBS S => max 0 (S - ip)

/-- `order_capacity or BIG_FLOAT` then `min(OQ, capacity)`.  RECONCILED: a capacity of 0 means
"no capacity" in the code (`or`), not "order nothing". BIG_FLOAT = 1e100 is treated as +∞. -/
def capped (q : Rat) : Option Rat → Rat
  | none => q
  | some c => if c = 0 then q else min q c

/-- Descendants of `n` (reachability over internal edges), fuel = number of nodes. -/
def reachFrom (net : Net) : Nat → List Nat → List Nat → List Nat
  | 0, _, acc => acc
  | fuel+1, frontier, acc =>
    let next := (frontier.flatMap (net.succs ·)).filter (fun m => !acc.contains m)
    let next := next.eraseDups
    if next.isEmpty then acc else reachFrom net fuel next (acc ++ next)

def Net.descendants (net : Net) (n : Nat) : List Nat := reachFrom net net.nodes.length [n] []

/-- Local inventory position before demand: `IL + min_rm (RM + OO + IDI)` (node_state_vars.py:1041). -/
def localIP (net : Net) (st : State) (n : Nat) : Rat :=
  (st.node n).il + lmin ((net.cfg n).inE.map fun e => (st.edge e).rm + (st.edge e).oo + (st.edge e).idi)

/-- In transit to node `d` from node `n` or from one of `n`'s descendants `desc` (sum over `d`'s in-edges). -/
def transitInto (net : Net) (n : Nat) (desc : List Nat) (ispls : Nat → List Rat) (d : Nat) : Rat :=
  lsum ((net.cfg d).inE.map fun e =>
    match (net.edge e).src with
    | some p => if p = n ∨ desc.contains p then lsum (ispls e) else 0
    | none => 0)

/-- Sum over the node's own in-edges of one component of the (raw material, on-order, held at the door) triple. -/
def ownTot (net : Net) (n : Nat) (ipf : Nat → Rat × Rat × Rat) (f : Rat × Rat × Rat → Rat) : Rat :=
  lsum ((net.cfg n).inE.map fun e => f (ipf e))

/-- The echelon inventory position as a function of what it reads: every node's inventory level (`ils`), the inbound
shipment pipelines of the edges (`ispls`), and the (raw material, on-order, held at the door) triple of the node's own
in-edges (`ipf`) (node_state_vars.py:1114-1236, single product). -/
def eipOf (net : Net) (n : Nat) (ils : Nat → Rat) (ispls : Nat → List Rat) (ipf : Nat → Rat × Rat × Rat) : Rat :=
  let desc := net.descendants n
  let eoh := pos (ils n) + lsum (desc.map fun d => pos (ils d) + transitInto net n desc ispls d)
  let eil := eoh - lsum ((n :: desc).map fun d => if (net.succs d).isEmpty then neg (ils d) else 0)
  let k : Rat := ((net.cfg n).inE.length : Nat)
  let agg (x : Rat) : Rat := if x = 0 then 0 else x / k
  eil + agg (ownTot net n ipf (·.2.1)) + agg (ownTot net n ipf (·.1)) + agg (ownTot net n ipf (·.2.2))

/-- Echelon inventory position before demand, read off a state. -/
def echelonIP (net : Net) (st : State) (n : Nat) : Rat :=
  eipOf net n (fun k => (st.node k).il) (fun e => (st.edge e).ispl)
    (fun e => ((st.edge e).rm, (st.edge e).oo, (st.edge e).idi))

def demandNow (net : Net) (st : State) (n : Nat) : Rat :=
  lsum ((net.cfg n).outE.map fun e => (st.edge e).io)

/-- Inventory position the policy observes (after this period's demand). -/
def ipObserved (net : Net) (st : State) (n : Nat) : Rat :=
  match (net.cfg n).policy with
  | .EBS _ => echelonIP net st n - demandNow net st n
  | _ => localIP net st n - demandNow net st n

def orderQty (net : Net) (st : State) (n : Nat) : Rat :=
  capped ((net.cfg n).policy.qty (ipObserved net st n)) (net.cfg n).cap

/-! ### kernels of the order phase -/

/-- `_receive_inbound_orders` on one out-edge: read slot 0 of the order pipeline. -/
def recvOrderEdge (e : EdgeSt) : EdgeSt :=
  { e with io := e.iopl.headD 0, iopl := e.iopl.set 0 0 }

def receiveOrders (net : Net) (n : Nat) (st : State) : State :=
  let d := lsum ((net.cfg n).outE.map fun e => (st.edge e).iopl.headD 0)
  (st.modEdges (net.cfg n).outE fun _ => recvOrderEdge).modNode n fun s => { s with dcum := s.dcum + d }

/-- Place the order `q` on one in-edge (sim.py:433-445). -/
def placeOrderEdge (olt slt : Nat) (ext : Bool) (q : Rat) (e : EdgeSt) : EdgeSt :=
  if ext then { e with ispl := addAt e.ispl (olt + slt) q, oq := e.oq + q, oo := e.oo + q }
  else { e with iopl := addAt e.iopl olt q, oq := e.oq + q, oo := e.oo + q }

def placeOrders (net : Net) (n : Nat) (st : State) : State :=
  if isDisr net st n .OP then st else
  let c := net.cfg n
  let q := orderQty net st n
  (st.modEdges c.inE fun e => placeOrderEdge c.olt c.slt ((net.edge e).src.isNone) q).modNode n
    fun s => { s with oqfg := s.oqfg + q, pfg := s.pfg + q }

/-! ### kernels of the shipment phase -/

/-- `_receive_inbound_shipments` on one in-edge; `rp` = receipt-pausing disruption active. -/
def recvShipEdge (rp : Bool) (e : EdgeSt) : EdgeSt :=
  let r := e.ispl.headD 0
  if rp then { e with is_ := 0, ispl := e.ispl.set 0 0, oo := e.oo - r, idi := e.idi + r }
  else { e with is_ := r + e.idi, ispl := e.ispl.set 0 0, rm := e.rm + (r + e.idi), oo := e.oo - r, idi := 0 }

def receiveShipments (net : Net) (n : Nat) (st : State) : State :=
  st.modEdges (net.cfg n).inE fun _ => recvShipEdge (isDisr net st n .RP)

/-- Units producible: `min` over raw materials of the available stock.  RECONCILED: the code goes
through "shares" of each raw material; with one product per node the share fraction is exactly 1
(`x/x`, or `1/1` when nothing was ordered), and a non-positive stock gives share 0. -/
def producible (net : Net) (st : State) (n : Nat) : Rat :=
  lmin ((net.cfg n).inE.map fun e => if 0 < (st.edge e).rm then (st.edge e).rm else 0)

def rmToFg (net : Net) (n : Nat) (st : State) : State :=
  let m := producible net st n
  (st.modEdges (net.cfg n).inE fun _ e => { e with rm := e.rm - m }).modNode n
    fun s => { s with il := s.il + m, pfg := s.pfg - m, newFG := m }

/-- Result of serving one successor (sim.py:961-1020). `oh` = on-hand still available;
`sp` = shipment-pausing disruption active at the successor; `ext` = external customer. -/
structure ShipOut where
  e : EdgeSt
  oh : Rat
  dmfs : Rat

def shipOne (oh : Rat) (sp ext : Bool) (e : EdgeSt) : ShipOut :=
  let rts := min oh (e.bo + e.io)
  let os := if sp then 0 else rts + e.odi
  let odiNew := if sp then rts else 0
  let boToDi := if sp then min rts e.bo else 0
  let ndToDi := odiNew - boToDi
  let diOs := min os e.odi
  let boOs := min (os - diOs) e.bo
  let nonBoDiOs := os - boOs - diOs
  let bo' := (e.bo - (boOs + boToDi)) + max 0 (e.io - ndToDi - nonBoDiOs)
  { e := { e with os := os, bo := bo', odi := if ext then e.odi else e.odi + (odiNew - diOs) },
    oh := oh - (os - diOs + odiNew),
    dmfs := max 0 (os - e.bo) }

/-- Serve the successors in order; returns new state, remaining on-hand, total demand met from stock
and total inbound orders processed. -/
def shipLoop (net : Net) (st : State) : List Nat → State → Rat → Rat → Rat → State × Rat × Rat × Rat
  | [], s, oh, dm, io => (s, oh, dm, io)
  | e :: es, s, oh, dm, io =>
    let ed := s.edge e
    let (sp, ext) := match (net.edge e).dst with
      | some m => (isDisr net st m .SP, false)
      | none => (false, true)
    let r := shipOne oh sp ext ed
    shipLoop net st es (s.modEdge e fun _ => r.e) r.oh (dm + r.dmfs) (io + ed.io)

def processOutbound (net : Net) (n : Nat) (startIL : Rat) (st : State) : State :=
  let oh0 := pos startIL + (st.node n).newFG
  let (s, _, dm, io) := shipLoop net st (net.cfg n).outE st oh0 0 0
  s.modNode n fun x => { x with il := x.il - io, dmfs := dm, dmfsCum := x.dmfsCum + dm }

def fillRate (n : Nat) (st : State) : State :=
  st.modNode n fun x => { x with fill := if 0 < x.dcum then x.dmfsCum / x.dcum else 1 }

/-- `_propagate_shipment_downstream`: the shipment enters the customer's pipeline at its lead-time slot. -/
def propagate (net : Net) (n : Nat) (st : State) : State :=
  st.modEdges (net.cfg n).outE fun e ed =>
    match (net.edge e).dst with
    | some m => { ed with ispl := addAt ed.ispl (net.cfg m).slt ed.os }
    | none => ed

def nodeShip (net : Net) (n : Nat) (st : State) : State :=
  let startIL := (st.node n).il
  let s1 := receiveShipments net n st
  let s2 := rmToFg net n s1
  let s3 := processOutbound net n startIL s2
  let s4 := fillRate n s3
  propagate net n s4

/-! ### visiting orders (sim.py:step, _generate_downstream_orders/_shipments) -/

def sources (net : Net) : List Nat :=
  (List.range net.nodes.length).filter fun n => (net.preds n).isEmpty

/-- Post-order DFS: successors first. State = (visited, output sequence). -/
def ordVisit (net : Net) : Nat → Nat → List Nat × List Nat → List Nat × List Nat
  | 0, _, s => s
  | fuel+1, n, (vis, out) =>
    if vis.contains n then (vis, out) else
    let (vis', out') := (net.succs n).foldl (fun s m => ordVisit net fuel m s) (n :: vis, out)
    (vis', out' ++ [n])

def orderSeq (net : Net) : List Nat :=
  ((sources net).foldl (fun s n => ordVisit net (net.nodes.length + 1) n s) ([], [])).2

/-- Pre-order DFS in which a successor is entered once all its predecessors have been. -/
def shipVisit (net : Net) : Nat → Nat → List Nat × List Nat → List Nat × List Nat
  | 0, _, s => s
  | fuel+1, n, (vis, out) =>
    if vis.contains n then (vis, out) else
    (net.succs n).foldl
      (fun s m => if (net.preds m).all (fun p => s.1.contains p) then shipVisit net fuel m s else s)
      (n :: vis, out ++ [n])

def shipSeq (net : Net) : List Nat :=
  ((sources net).foldl (fun s n => shipVisit net (net.nodes.length + 1) n s) ([], [])).2

/-- `seq` visits every node exactly once and every `before m`-neighbour of `m` earlier than `m`. -/
def seqOK (nNodes : Nat) (before : Nat → List Nat) (seq : List Nat) : Bool :=
  seq.length == nNodes && (List.range nNodes).all (fun n => seq.contains n) &&
  (List.range seq.length).all fun i =>
    (before (seq.getD i 0)).all fun b => (seq.take i).contains b

/-- The decidable side condition of the network-level theorems. -/
def OrderOK (net : Net) : Bool :=
  seqOK net.nodes.length net.succs (orderSeq net) && seqOK net.nodes.length net.preds (shipSeq net)

/-! ### period bookkeeping -/

structure Exo where
  demand : Rat := 0        -- value returned by `generate_demand` (ignored without a demand source)
  disrupted : Bool := false
deriving Repr

def setExo (net : Net) (exo : List Exo) (st : State) : State :=
  let st1 : State := { st with nodes := (st.nodes.zip exo).map fun (s, x) => { s with disrupted := x.disrupted } }
  -- external demand goes into slot 0 of the external customer's order pipeline
  (List.range net.nodes.length).foldl (fun s n =>
    s.modEdges ((net.cfg n).outE.filter fun e => (net.edge e).dst.isNone) fun _ ed =>
      { ed with iopl := ed.iopl.set 0 ((exo.getD n {}).demand) }) st1

def shiftPipe (l : List Rat) : List Rat :=
  match l with
  | [] => []
  | [x] => [x]
  | x :: y :: rest => (x + y) :: (rest ++ [0])

/-- `_initialize_next_period_state_vars` for one edge; `tp` = transit-pausing disruption at `dst`. -/
def nextEdge (tp : Bool) (e : EdgeSt) : EdgeSt :=
  { ispl := if tp then e.ispl else shiftPipe e.ispl,
    is_ := 0, oo := e.oo, idi := e.idi, oq := 0, rm := e.rm,
    iopl := e.iopl.tail ++ (if e.iopl.isEmpty then [] else [0]),
    io := 0, os := 0, bo := e.bo, odi := e.odi }

def nextNode (s : NodeSt) : NodeSt :=
  { il := s.il, pfg := s.pfg, dcum := s.dcum, dmfsCum := s.dmfsCum }

def initNext (net : Net) (st : State) : State :=
  { nodes := st.nodes.map nextNode,
    edges := (st.edges.zip net.edges).map fun (es, e) =>
      nextEdge (match e.dst with | some n => isDisr net st n .TP | none => false) es }

/-- `_calculate_period_costs` for node `n` on the end-of-period state. -/
def nodeCosts (net : Net) (st : State) (n : Nat) (s : NodeSt) : NodeSt :=
  let c := net.cfg n
  let held := pos s.il + lsum (c.outE.map fun e => (st.edge e).odi)
  let rmCost := lsum (c.inE.map fun e =>
    match (net.edge e).src with
    | some p => (net.cfg p).h * ((st.edge e).rm + (st.edge e).idi)
    | none => 0)
  -- a cost FUNCTION, when given, replaces rate × quantity: holding on the items held (positive inventory +
  -- items held for disrupted customers), stockout on the signed ending inventory level (sim.py:704-731)
  let hc := (match c.hFn with | some cs => polyEval cs held | none => c.h * held) + rmCost
  let sc := match c.pFn with | some cs => polyEval cs s.il | none => c.p * neg s.il
  let ht := match c.hTransit with | none => c.h | some x => x
  let ithc := ht * lsum (c.outE.map fun e =>
    match (net.edge e).dst with | some _ => lsum (st.edge e).ispl | none => 0)
  let rv := c.rev * lsum (c.outE.map fun e => (st.edge e).os)
  { s with hc := hc, sc := sc, ithc := ithc, rv := rv, tc := hc + sc + ithc - rv }

def costs (net : Net) (st : State) : State :=
  { st with nodes := (List.range st.nodes.length).map fun n => nodeCosts net st n (st.node n) }

/-- One period (`sim.step`): returns the finalised `state_vars[t]` and the initial `state_vars[t+1]`.
RECONCILED: costs are computed after next-period initialisation in the code; they read only period-`t`
state, so the model computes them first. -/
def step (net : Net) (st : State) (exo : List Exo) : State × State :=
  let s1 := setExo net exo st
  let s2 := (orderSeq net).foldl (fun s n => placeOrders net n (receiveOrders net n s)) s1
  let s3 := (shipSeq net).foldl (fun s n => nodeShip net n s) s2
  let s4 := costs net s3
  (s4, initNext net s3)

/-! ### initial state (`_initialize_state_vars`, NodeStateVars.__init__) -/

def initIL (c : NodeCfg) : Rat :=
  match c.initIL with
  | some x => x
  | none => c.policy.qty 0     -- `get_order_quantity(inventory_position=0)`

def initEdge (net : Net) (e : Edge) : EdgeSt :=
  let cust : EdgeSt := match e.dst with
    | some n =>
      let c := net.cfg n
      -- orders in transit to the *external* supplier wait in the shipment pipeline behind the initial
      -- shipments (sim.py `_initialize_state_vars`, after the phantom-on-order fix)
      { ispl := List.replicate c.slt c.initShipments ++
          (if e.src.isNone then List.replicate c.olt c.initOrders else List.replicate c.olt 0) ++ [0],
        oo := c.initShipments * c.slt + c.initOrders * c.olt }
    | none => {}
  match e.src, e.dst with
  | some _, some n =>
    let c := net.cfg n
    { cust with iopl := List.replicate c.olt c.initOrders ++ [0] }
  | some _, none => { cust with iopl := [0] }
  | none, _ => cust

def initState (net : Net) : State :=
  { nodes := net.nodes.map fun c => { il := initIL c },
    edges := net.edges.map (initEdge net) }

/-- The trace `state_vars[0..T-1]` for a history of exogenous inputs. -/
def run (net : Net) : State → List (List Exo) → List State
  | _, [] => []
  | st, x :: xs => let (fin, nxt) := step net st x; fin :: run net nxt xs

def simulate (net : Net) (hist : List (List Exo)) : List State := run net (initState net) hist

/-- Total cost returned by `simulation()`: sum over nodes and periods (`extra_periods` are zeros). -/
def totalCost (tr : List State) : Rat :=
  lsum (tr.map fun st => lsum (st.nodes.map (·.tc)))

end Stockpyl.Sim

namespace Stockpyl.Sim

/-- Pure form of the per-successor loop: serve the successors `(sp, ext, edge)` in order from
on-hand `oh`; returns the updated edges, the remaining on-hand and the demand met from stock. -/
def shipAll : Rat → List (Bool × Bool × EdgeSt) → List EdgeSt × Rat × Rat
  | oh, [] => ([], oh, 0)
  | oh, (sp, ext, e) :: rest =>
    let r := shipOne oh sp ext e
    let (es, oh', dm) := shipAll r.oh rest
    (r.e :: es, oh', r.dmfs + dm)

end Stockpyl.Sim

namespace Stockpyl.Sim

/-- Everything that happens to ONE internal edge `(supplier → customer)` in one period, in the order
fixed by the two depth-first passes (customer orders before the supplier reads its orders; supplier
ships before the customer receives), for arbitrary order quantity `q`, supplier on-hand `oh` and
disruption flags: `sp`, `tp`, `rp` = shipment, transit, receipt pausing disruption active at the customer. -/
def edgePeriod (olt slt : Nat) (q oh : Rat) (sp tp rp : Bool) (e : EdgeSt) : EdgeSt × EdgeSt :=
  let e1 := placeOrderEdge olt slt false q e          -- customer places its order
  let e2 := recvOrderEdge e1                          -- supplier reads slot 0 of its order pipeline
  let e3 := (shipOne oh sp false e2).e                -- supplier serves this customer
  let e4 := { e3 with ispl := addAt e3.ispl slt e3.os }   -- shipment enters the customer's pipeline
  let e5 := recvShipEdge rp e4                        -- customer receives slot 0
  (e5, nextEdge tp e5)                                -- (end-of-period record, next period's initial record)

/-- The same for the edge from the external supplier (orders go straight into the shipment pipeline). -/
def extSupplyPeriod (olt slt : Nat) (q : Rat) (tp rp : Bool) (e : EdgeSt) : EdgeSt × EdgeSt :=
  let e1 := placeOrderEdge olt slt true q e
  let e5 := recvShipEdge rp e1
  (e5, nextEdge tp e5)

/-- On-order ledger of an edge: on-order minus everything ordered and not yet received
(orders travelling to the supplier, supplier's backorders and held items, units in transit). -/
def ledger (e : EdgeSt) : Rat := e.oo - (lsum e.iopl + e.bo + e.odi + lsum e.ispl)

/-- Order pipeline after one period shift. -/
def shiftOrders (l : List Rat) : List Rat := l.tail ++ (if l.isEmpty then [] else [0])

end Stockpyl.Sim

namespace Stockpyl.Sim

/-! ### labels (C06: renumbering the nodes only renames the trajectory) -/

/-- A network as the user states it: node labels in `network.nodes` order, edges as label pairs. -/
structure LabelledNet where
  labels : List Int
  edges : List (Int × Int)
deriving Repr

/-- Position of a label (`nodes_by_index` look-up). -/
def posOf (labels : List Int) (l : Int) : Nat := labels.idxOf l

/-- Internal edges as position pairs — all the simulator model ever sees of the labels. -/
def LabelledNet.resolve (L : LabelledNet) : List (Nat × Nat) :=
  L.edges.map fun (a, b) => (posOf L.labels a, posOf L.labels b)

def LabelledNet.rename (L : LabelledNet) (π : Int → Int) : LabelledNet :=
  { labels := L.labels.map π, edges := L.edges.map fun (a, b) => (π a, π b) }

/-- State reached after a history (the initial state of the next period). -/
def stateAfter (net : Net) : State → List (List Exo) → State
  | st, [] => st
  | st, x :: xs => stateAfter net (step net st x).2 xs

end Stockpyl.Sim
