import StockpylModel.Model.Basic
/-
Discrete loss functions over a finite pmf on {0, 1, …, D} (loss_functions.py:discrete_loss with a pmf dict)
and the discrete newsvendor built on them (newsvendor.py:newsvendor_discrete).
-/
namespace Stockpyl.Loss
open Stockpyl

/-- `E_p[f(D)] = Σ_d p_d · f(d)` for a pmf given as the list of `p_off, p_{off+1}, …`. -/
def ex : List Rat → (Nat → Rat) → Nat → Rat
  | [], _, _ => 0
  | q :: qs, f, off => q * f off + ex qs f (off + 1)

def expect (p : List Rat) (f : Nat → Rat) : Rat := ex p f 0

/-- First-order loss `n(x) = E[(D − x)⁺]` and complementary loss `n̄(x) = E[(x − D)⁺]`, integer `x`. -/
def lossN (p : List Rat) (x : Int) : Rat := expect p fun d => pos ((d : Int) - x : Int)
def lossNbar (p : List Rat) (x : Int) : Rat := expect p fun d => pos (x - (d : Int) : Int)

def mean (p : List Rat) : Rat := expect p fun d => (d : Rat)

/-- One-period newsvendor cost `h·n̄(y) + p·n(y)`. -/
def nvCost (pmf : List Rat) (h b : Rat) (y : Int) : Rat := h * lossNbar pmf y + b * lossN pmf y

/-- `newsvendor_discrete` optimisation branch: smallest support point whose cdf reaches `b/(b+h)`
(the scan stops at the last support point). Returns the index. -/
def nvScan (alpha : Rat) : List Rat → Rat → Nat → Nat
  | [], _, i => i - 1
  | q :: qs, F, i => if F < alpha then (match qs with | [] => i | _ => nvScan alpha qs (F + q) (i + 1)) else i - 1

def nvOpt (pmf : List Rat) (h b : Rat) : Nat := nvScan (b / (b + h)) pmf 0 0

end Stockpyl.Loss

namespace Stockpyl.Loss
open Stockpyl

/-- cdf of the finite pmf at integer `x ≥ 0`: `F(x) = Σ_{d ≤ x} p_d`. -/
def cdfAt (p : List Rat) (x : Nat) : Rat := expect p fun d => if d ≤ x then 1 else 0

/-- Second-order loss functions of a discrete distribution (factorial-moment variants,
loss_functions.py:discrete_second_loss, pmf branch). -/
def loss2 (p : List Rat) (x : Int) : Rat :=
  (1/2) * expect p fun d => if x ≤ (d : Int) then (((d : Int) - x : Int) : Rat) * ((((d : Int) - x - 1 : Int)) : Rat) else 0
def loss2bar (p : List Rat) (x : Int) : Rat :=
  (1/2) * expect p fun d => if (d : Int) ≤ x then ((x - (d : Int) : Int) : Rat) * ((x + 1 - (d : Int) : Int) : Rat) else 0

def secondMoment (p : List Rat) : Rat := expect p fun d => (d : Rat) * (d : Rat)

/-- `discrete_loss(x, distrib)` (cdf branch): `n̄ = Σ_{y=0}^{x−1} F(y)`, `n = n̄ − x + E`. -/
def lossNbarCdf (p : List Rat) (x : Nat) : Rat := lsum ((List.range x).map (cdfAt p))

/-! Closed forms as functions of the SciPy primitives `f = pmf/pdf(x)`, `F = cdf(x)` -/

def poissonLoss (x mu f F : Rat) : Rat × Rat := (-(x - mu) * (1 - F) + mu * f, (x - mu) * F + mu * f)
def poissonLoss2 (x mu f F : Rat) : Rat × Rat :=
  ((1/2) * (((x - mu) * (x - mu) + x) * (1 - F) - mu * (x - mu) * f), (1/2) * (((x - mu) * (x - mu) + x) * F + mu * (x - mu) * f))
def stdNormalLoss (z phi Phi : Rat) : Rat × Rat := (phi - z * (1 - Phi), z + (phi - z * (1 - Phi)))
def stdNormalLoss2 (z phi Phi : Rat) : Rat × Rat :=
  let l2 := (1/2) * ((z * z + 1) * (1 - Phi) - z * phi)
  (l2, (1/2) * (z * z + 1) - l2)
def normalLoss (x mean sd phi Phi : Rat) : Rat × Rat :=
  let l := stdNormalLoss ((x - mean) / sd) phi Phi
  (sd * l.1, sd * l.2)
def negBinLoss (x r beta mean f F : Rat) : Rat × Rat :=
  let n := -(x - r * beta) * (1 - F) + (x + r) * beta * f
  (n, x - mean + n)
def gammaLoss (x a b f F : Rat) : Rat × Rat :=
  let n := ((a - x / b) * (1 - F) + x * f) * b
  (n, x - a * b + n)
def uniformLoss (x a b : Rat) : Rat × Rat := ((b - x) * (b - x) / (2 * (b - a)), (x - a) * (x - a) / (2 * (b - a)))

end Stockpyl.Loss
