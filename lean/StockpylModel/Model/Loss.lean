import StockpylModel.Model.Basic
/-
Discrete loss functions over a finite pmf on {0, 1, …, D} (loss_functions.py:discrete_loss with a pmf dict)
and the discrete newsvendor built on them (newsvendor.py:newsvendor_discrete).
-/
namespace Stockpyl.Loss
open Stockpyl

/-- `E_p[f(D)] = Σ_d p_d · f(d)` for a pmf given as the list of `p_off, p_{off+1}, …`. -/
def ex : List Rat → (Nat → Rat) → Nat → Rat
  | [], _, _ => 0
  | q :: qs, f, off => q * f off + ex qs f (off + 1)

def expect (p : List Rat) (f : Nat → Rat) : Rat := ex p f 0

/-- First-order loss `n(x) = E[(D − x)⁺]` and complementary loss `n̄(x) = E[(x − D)⁺]`, integer `x`. -/
def lossN (p : List Rat) (x : Int) : Rat := expect p fun d => pos ((d : Int) - x : Int)
def lossNbar (p : List Rat) (x : Int) : Rat := expect p fun d => pos (x - (d : Int) : Int)

def mean (p : List Rat) : Rat := expect p fun d => (d : Rat)

/-- One-period newsvendor cost `h·n̄(y) + p·n(y)`. -/
def nvCost (pmf : List Rat) (h b : Rat) (y : Int) : Rat := h * lossNbar pmf y + b * lossN pmf y

/-- `newsvendor_discrete` optimisation branch: smallest support point whose cdf reaches `b/(b+h)`
(the scan stops at the last support point). Returns the index. -/
def nvScan (alpha : Rat) : List Rat → Rat → Nat → Nat
  | [], _, i => i - 1
  | q :: qs, F, i => if F < alpha then (match qs with | [] => i | _ => nvScan alpha qs (F + q) (i + 1)) else i - 1

def nvOpt (pmf : List Rat) (h b : Rat) : Nat := nvScan (b / (b + h)) pmf 0 0

end Stockpyl.Loss
