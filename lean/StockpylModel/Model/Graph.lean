import StockpylModel.Model.Basic
/-
Model of the structure-mutating operations of `SupplyChainNetwork` / `SupplyChainNode`
(supply_chain_network.py:468-719, supply_chain_node.py:1860-1938): every node keeps its own ordered
list of predecessor labels and of successor labels; the network keeps the nodes in insertion order.
-/
namespace Stockpyl.Graph

structure GNode where
  label : Int
  preds : List Int
  succs : List Int
deriving Repr, DecidableEq

abbrev G := List GNode

def labels (g : G) : List Int := g.map (·.label)

def find (g : G) (l : Int) : Option GNode := g.find? (·.label == l)

/-- `network.add_node(node)`: no-op when a node with that index is already there. -/
def addNode (g : G) (l : Int) : G := if l ∈ labels g then g else g ++ [⟨l, [], []⟩]

def hasEdge (g : G) (a b : Int) : Bool := g.any fun n => n.label == a && n.succs.contains b

/-- The two list appends of `node.add_successor(succ)` / `succ.add_predecessor(node)`. -/
def link (a b : Int) (n : GNode) : GNode :=
  let n1 := if n.label = a then { n with succs := n.succs ++ [b] } else n
  if n.label = b then { n1 with preds := n1.preds ++ [a] } else n1

/-- `network.add_successor(node a, node b)` (the successor is added to the network if it is new).
After the fix of the duplicate-edge defect an existing edge is left alone. -/
def addSucc (g : G) (a b : Int) : G :=
  let g1 := addNode g b
  if hasEdge g1 a b then g1 else g1.map (link a b)

/-- `network.add_predecessor(node b, node a)`: same edge, the predecessor may be the new node. -/
def addPred (g : G) (b a : Int) : G :=
  let g1 := addNode g a
  if hasEdge g1 a b then g1 else g1.map (link a b)

inductive Err where
  | keyError
deriving Repr, DecidableEq

/-- `network.add_edge(a, b)`: both nodes must exist. -/
def addEdge (g : G) (a b : Int) : Except Err G :=
  if hasEdge g a b then .ok g
  else if a ∈ labels g ∧ b ∈ labels g then .ok (g.map (link a b)) else .error .keyError

/-- `network.remove_node(node)`. -/
def removeNode (g : G) (l : Int) : G :=
  (g.filter (·.label != l)).map fun n => { n with preds := n.preds.erase l, succs := n.succs.erase l }

/-- `a.remove_successor(b); b.remove_predecessor(a)`: the two node-level calls that take an edge out (each is a no-op
when the other node is not a neighbour). -/
def unlinkNode (a b : Int) (n : GNode) : GNode :=
  let n1 := if n.label = a then { n with succs := n.succs.erase b } else n
  if n.label = b then { n1 with preds := n1.preds.erase a } else n1

def unlink (g : G) (a b : Int) : G := g.map (unlinkNode a b)

/-- `network.reindex_nodes(old_to_new)`. -/
def reindex (g : G) (π : Int → Int) : G :=
  g.map fun n => ⟨π n.label, n.preds.map π, n.succs.map π⟩

/-! ### derived views -/

def edges (g : G) : List (Int × Int) := g.flatMap fun n => n.succs.map fun s => (n.label, s)
def sources (g : G) : List Int := (g.filter (·.preds.isEmpty)).map (·.label)
def sinks (g : G) : List Int := (g.filter (·.succs.isEmpty)).map (·.label)

def succsOf (g : G) (l : Int) : List Int := match find g l with | some n => n.succs | none => []
def predsOf (g : G) (l : Int) : List Int := match find g l with | some n => n.preds | none => []

def reach (next : Int → List Int) : Nat → List Int → List Int → List Int
  | 0, _, acc => acc
  | fuel+1, frontier, acc =>
    let nxt := ((frontier.flatMap next).filter fun m => !acc.contains m).eraseDups
    if nxt.isEmpty then acc else reach next fuel nxt (acc ++ nxt)

/-- `nx.descendants` / `nx.ancestors`: everything reachable, the node itself excluded (even on a cycle). -/
def descendants (g : G) (l : Int) : List Int := (reach (succsOf g) g.length [l] []).filter (· != l)
def ancestors (g : G) (l : Int) : List Int := (reach (predsOf g) g.length [l] []).filter (· != l)

/-- `network.has_directed_cycle()`: some node is joined to itself by a non-empty path of successor edges (a self-loop counts). -/
def hasCycle (g : G) : Bool := g.any fun n => (reach (succsOf g) g.length [n.label] []).contains n.label

/-! ### operations as data (for operation sequences) -/

inductive Op where
  | addNode (l : Int)
  | addEdge (a b : Int)
  | addSucc (a b : Int)
  | addPred (b a : Int)
  | removeNode (l : Int)
  | reindex (m : List (Int × Int))
  | unlink (a b : Int)
deriving Repr

def applyMap (m : List (Int × Int)) (l : Int) : Int := match m.find? (·.1 == l) with | some p => p.2 | none => l

/-- Apply an operation; operations the code rejects (KeyError) leave the graph unchanged and are flagged. -/
def apply (g : G) : Op → G × Bool
  | .addNode l => (addNode g l, true)
  | .addEdge a b => match addEdge g a b with | .ok g' => (g', true) | .error _ => (g, false)
  | .addSucc a b => if a ∈ labels g then (addSucc g a b, true) else (g, false)
  | .addPred b a => if b ∈ labels g then (addPred g b a, true) else (g, false)
  | .removeNode l => (removeNode g l, true)
  | .reindex m => (reindex g (applyMap m), true)
  | .unlink a b => (unlink g a b, true)

/-! ### echelon / local base-stock level conversion on a serial system (downstream-most stage first) -/

/-- `local_to_echelon_base_stock_levels`: echelon level of a stage = its local level + all downstream ones. -/
def toEchelon : List Rat → List Rat
  | [] => []
  | x :: xs => x :: (toEchelon xs).map (· + x)

def sufMin : List Rat → List Rat
  | [] => []
  | [x] => [x]
  | x :: y :: rest => let t := sufMin (y :: rest); (min x (t.headD x)) :: t

def diffs (prev : Rat) : List Rat → List Rat
  | [] => []
  | x :: xs => (x - prev) :: diffs x xs

/-- `echelon_to_local_base_stock_levels`: `S⁻_j = min_{i upstream of or at j} S_i`, local = `S⁻_j − S⁻_{j−1}`. -/
def toLocal (e : List Rat) : List Rat := diffs 0 (sufMin e)

end Stockpyl.Graph
