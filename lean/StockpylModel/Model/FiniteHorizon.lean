import StockpylModel.Model.Basic
/-
Model of `stockpyl.finite_horizon.finite_horizon_dp` (finite_horizon.py:412-524) on the grid it reports.
Per period the harness supplies, exactly as the code computes them: the demand probabilities over the
demand grid `d_min..d_max`, the one-period cost `g_t(y)` for `y = x_min..x_max`, and `K_t, c_t, γ_t`.
The state grid is `x_min..x_max`; positions in lists are `x − x_min`.
-/
namespace Stockpyl.FH
open Stockpyl

structure Period where
  K : Rat
  c : Rat
  gamma : Rat
  prob : List Rat     -- index j ↔ demand d_min + j
  g : List Rat        -- index i ↔ inventory level x_min + i
deriving Repr

/-- Index (position) of the next state `y − d_eff`, `d_eff = max(min(d, y − x_min), y − x_max)`;
`iy = y − x_min`, `n = x_max − x_min + 1`, `d = dmin + j`. -/
def nextIdx (n : Nat) (dmin : Int) (iy j : Nat) : Nat :=
  let d : Int := dmin + j
  let dEff : Int := max (min d (iy : Int)) ((iy : Int) - ((n : Int) - 1))
  ((iy : Int) - dEff).toNat

def dot : List Rat → List Rat → Rat
  | p :: ps, v :: vs => p * v + dot ps vs
  | _, _ => 0

/-- `H_t(y) = g_t(y) + γ_t Σ_d prob_t[d] · cost_{t+1}(y − d_eff)`. -/
def Hval (n : Nat) (dmin : Int) (per : Period) (next : List Rat) (iy : Nat) : Rat :=
  per.g.getD iy 0 + per.gamma * dot per.prob ((List.range per.prob.length).map fun j => next.getD (nextIdx n dmin iy j) 0)

def Hrow (n : Nat) (dmin : Int) (per : Period) (next : List Rat) : List Rat :=
  (List.range n).map (Hval n dmin per next)

/-- Cost of moving from position `ix` to position `iy ≥ ix` and continuing optimally. -/
def cand (per : Period) (H : List Rat) (ix iy : Nat) : Rat :=
  (if ix < iy then per.c * ((iy - ix : Nat) : Rat) + per.K else 0) + H.getD iy 0

/-- Candidates `y = x, x+1, …, x_max` in the order the code scans them. -/
def candList (per : Period) (H : List Rat) (n ix : Nat) : List Rat :=
  (List.range (n - ix)).map fun k => cand per H ix (ix + k)

/-- Optimisation step for one state: (best cost, position of the first minimiser). -/
def bestAt (per : Period) (H : List Rat) (n ix : Nat) : Rat × Nat :=
  match firstMin (candList per H n ix) with
  | some (v, k) => (v, ix + k)
  | none => (0, ix)

structure Rows where
  cost : List Rat
  oul : List Nat
  H : List Rat
deriving Repr

def optRow (n : Nat) (dmin : Int) (per : Period) (next : List Rat) : Rows :=
  let H := Hrow n dmin per next
  let bs := (List.range n).map (bestAt per H n)
  { cost := bs.map (·.1), oul := bs.map (·.2), H := H }

/-- Evaluation mode: the order-up-to position of every state is given. -/
def evalRow (n : Nat) (dmin : Int) (per : Period) (next : List Rat) (oul : List Nat) : Rows :=
  let H := Hrow n dmin per next
  { cost := (List.range n).map fun ix => cand per H ix (oul.getD ix ix), oul := oul, H := H }

/-- Backward pass: returns rows for t = 1..T (first = period 1). -/
def solve (n : Nat) (dmin : Int) : List Period → List Rat → List Rows
  | [], _ => []
  | per :: rest, terminal =>
    let later := solve n dmin rest terminal
    let next := match later with | r :: _ => r.cost | [] => terminal
    optRow n dmin per next :: later

def solveEval (n : Nat) (dmin : Int) : List Period → List (List Nat) → List Rat → List Rows
  | per :: rest, o :: os, terminal =>
    let later := solveEval n dmin rest os terminal
    let next := match later with | r :: _ => r.cost | [] => terminal
    evalRow n dmin per next o :: later
  | _, _, _ => []

/-- `(s_t, S_t)` from the order-up-to row: `S = oul[0]`, `s` = last position from the left whose successor
still orders up to `S` (finite_horizon.py:516-524). -/
def reorderPos (oul : List Nat) (n : Nat) : Nat → Nat → Nat
  | 0, r => r
  | f+1, r => if oul.getD (r + 1) n = oul.getD 0 0 ∧ r + 1 < n then reorderPos oul n f (r + 1) else r

/-- Would the code have aborted and doubled the range? (optimum at the top of the grid for some `x < x_max`) -/
def hitsTop (n : Nat) (rows : List Rows) : Bool :=
  rows.any fun r => (List.range (n - 1)).any fun ix => r.oul.getD ix 0 = n - 1

end Stockpyl.FH
