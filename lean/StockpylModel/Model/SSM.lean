import StockpylModel.Model.Basic
/-
Model of the Chen–Zheng recursion of `stockpyl.ssm_serial.optimize_base_stock_levels` (252-476) for
integer-valued (discrete) demand on the integer grid `x_lo, x_lo+1, …` the code builds (`x_delta = 1`).
Stages are numbered 1 (downstream) … N (upstream) as after `_preprocess_parameters`. Per stage the harness
supplies the lead-time-demand table `(d, fd)` exactly as the code computes it.
-/
namespace Stockpyl.SSM
open Stockpyl

structure StageIn where
  h : Rat                      -- echelon holding cost h_j
  L : Nat                      -- lead time L_j
  ds : List Int                -- lead-time demand support points d
  fd : List Rat                -- their probabilities
deriving Repr

structure Params where
  p : Rat
  mu : Rat                     -- mean demand per period
  xlo : Int
  n : Nat                      -- grid has n+1 points x_lo … x_lo+n
  stages : List StageIn        -- stage 1 first
deriving Repr

def gridAt (P : Params) (i : Nat) : Int := P.xlo + i
def sumH (P : Params) : Rat := lsum (P.stages.map (·.h))

/-- `L_a + … + L_{b−1}` (Python slice `sum(L[a:b])`, stages 1-indexed). -/
def sumL (P : Params) (a b : Nat) : Nat :=
  (((P.stages.map (·.L)).drop (a - 1)).take (b - a)).foldl (· + ·) 0

def hAt (P : Params) (i : Nat) : Rat := match P.stages[i - 1]? with | some st => st.h | none => 0

/-- Left-tail extrapolation `C_hat_lim1_j(x) = −(p+Σh)(x − μ ΣL[1:j]) + Σ_{i=1}^{j} h_i (x − μ ΣL[i:j])`. -/
def chatLim1 (P : Params) (j : Nat) (x : Int) : Rat :=
  let base : Rat := -(P.p + sumH P) * ((x : Rat) - P.mu * (sumL P 1 j : Nat))
  let terms : List Rat := (List.range j).map fun k => hAt P (k + 1) * ((x : Rat) - P.mu * (sumL P (k + 1) j : Nat))
  base + lsum terms

/-- `Ĉ_j(y)` looked up as the code does: on the grid `h_j·x + C̄_{j−1}(x)`, below the grid the linear left tail. -/
def chatAt (P : Params) (j : Nat) (st : StageIn) (cbarPrev : List Rat) (y : Int) : Rat :=
  if y < P.xlo then chatLim1 P j y
  else st.h * (gridAt P (y - P.xlo).toNat : Rat) + cbarPrev.getD (y - P.xlo).toNat 0

/-- `C_j(x_i) = Σ_d f_d · Ĉ_j(x_i − d)`. -/
def cRow (P : Params) (j : Nat) (st : StageIn) (cbarPrev : List Rat) : List Rat :=
  (List.range (P.n + 1)).map fun i =>
    lsum ((List.zip st.ds st.fd).map fun (d, f) => f * chatAt P j st cbarPrev (gridAt P i - d))

/-- One stage of the recursion. `cbarPrev[i] = C̄_{j−1}(x_i)`; returns `(C_j row, S*_j index, C̄_j row)`.
`fixedS = some s` is evaluation mode (echelon level given). -/
def stageStep (P : Params) (j : Nat) (st : StageIn) (cbarPrev : List Rat) (fixedS : Option Int) : List Rat × Nat × List Rat :=
  let C := cRow P j st cbarPrev
  let sIdx : Nat := match fixedS with
    | some s => (s - P.xlo).toNat
    | none => match firstMin C with | some (_, k) => k | none => 0
  let cbar : List Rat := (List.range (P.n + 1)).map fun i => C.getD (min sIdx i) 0
  (C, sIdx, cbar)

def cbar0 (P : Params) : List Rat := (List.range (P.n + 1)).map fun i => (P.p + sumH P) * neg (gridAt P i : Rat)

def run (P : Params) (fixed : List (Option Int)) : List (List Rat × Nat × List Rat) :=
  let rec go : Nat → List StageIn → List (Option Int) → List Rat → List (List Rat × Nat × List Rat)
    | _, [], _, _ => []
    | j, st :: rest, fx, cbar =>
      let r := stageStep P j st cbar (fx.headD none)
      r :: go (j + 1) rest fx.tail r.2.2
  go 1 P.stages fixed (cbar0 P)

structure Result where
  S : List Int        -- S*_1 … S*_N
  cost : Rat          -- C_N(S*_N)
deriving Repr

def solve (P : Params) (fixed : List (Option Int)) : Result :=
  let rows := run P fixed
  { S := rows.map fun r => gridAt P r.2.1,
    cost := match rows.getLast? with | some r => r.1.getD r.2.1 0 | none => 0 }

end Stockpyl.SSM
