import StockpylModel.Model.Basic
/-
Guaranteed-service model. Stage cost is a table `c[τ]` in the net lead time `τ` (the harness supplies
`h·z·σ·√τ` exactly as Python computes it). Serial DP of `gsm_serial._cst_dp_serial` (182-307) and the
solution evaluators of `gsm_helpers` (inbound CST, net lead time, cost) on trees.
-/
namespace Stockpyl.GSM
open Stockpyl

structure Stage where
  T : Nat            -- processing time
  c : List Rat       -- c[τ], τ = 0, 1, …
deriving Repr

def Stage.cost (s : Stage) (tau : Nat) : Rat := s.c.getD tau 0

/-- Candidates of stage `s` with inbound service time `SI`: quote `S = 0..SI+T`, continue with `rest S`. -/
def stageCands (s : Stage) (SI : Nat) (rest : Nat → Rat) : List Rat :=
  (List.range (SI + s.T + 1)).map fun S => s.cost (SI + s.T - S) + rest S

/-- `θ_k(SI)` for the stages listed upstream-first `[k, k−1, …, 1]`; stage 1 quotes the external outbound
CST `sOut` to the customer (its net lead time is clamped at 0 as in the code). -/
def theta (sOut : Nat) : List Stage → Nat → Rat
  | [], _ => 0
  | [s1], SI => s1.cost (SI + s1.T - sOut)
  | s :: s' :: rest, SI =>
    match firstMin (stageCands s SI (theta sOut (s' :: rest))) with
    | some (v, _) => v
    | none => 0

/-- Best CST of the first stage for inbound time `SI` (first minimiser). -/
def bestS (sOut : Nat) : List Stage → Nat → Nat
  | [], _ => 0
  | [_], _ => sOut
  | s :: s' :: rest, SI =>
    match firstMin (stageCands s SI (theta sOut (s' :: rest))) with
    | some (_, S) => S
    | none => 0

/-- Backtracking: CSTs of all stages, upstream first. -/
def solution (sOut : Nat) : List Stage → Nat → List Nat
  | [], _ => []
  | s :: rest, SI => let S := bestS sOut (s :: rest) SI; S :: solution sOut rest S

/-- Cost of an arbitrary CST vector (upstream first) under inbound time `SI`. -/
def planCost : List Stage → Nat → List Nat → Rat
  | s :: rest, SI, S :: more => s.cost (SI + s.T - S) + planCost rest S more
  | _, _, _ => 0

/-- Feasible: every net lead time is non-negative (`S_k ≤ SI_k + T_k`) and the last stage quotes `sOut`. -/
def feasible (sOut : Nat) : List Stage → Nat → List Nat → Prop
  | [], _, [] => True
  | [s1], SI, [S1] => S1 = sOut
  | s :: s' :: rest, SI, S :: more => S ≤ SI + s.T ∧ feasible sOut (s' :: rest) S more
  | _, _, _ => False

/-! ### trees: evaluators of a given CST assignment (`gsm_helpers`) -/

structure TNode where
  T : Nat
  c : List Rat
  preds : List Nat          -- positions of predecessors
  extIn : Nat               -- external inbound CST (0 if none)
  extOut : Option Nat       -- external outbound CST limit for demand nodes
deriving Repr

def inboundCST (nodes : List TNode) (cst : List Nat) (k : Nat) : Nat :=
  match nodes[k]? with
  | none => 0
  | some n => (n.preds.map fun i => cst.getD i 0).foldl max n.extIn

/-- Net lead time `SI + T − S` as an integer (negative = infeasible). -/
def netLeadTime (nodes : List TNode) (cst : List Nat) (k : Nat) : Int :=
  match nodes[k]? with
  | none => 0
  | some n => (inboundCST nodes cst k : Int) + n.T - (cst.getD k 0 : Nat)

def treeFeasible (nodes : List TNode) (cst : List Nat) : Bool :=
  (List.range nodes.length).all fun k =>
    decide (0 ≤ netLeadTime nodes cst k) &&
    (match nodes[k]? with
     | some n => (match n.extOut with | some s => decide (cst.getD k 0 ≤ s) | none => true)
     | none => true)

def treeCost (nodes : List TNode) (cst : List Nat) : Rat :=
  lsum ((List.range nodes.length).map fun k =>
    match nodes[k]? with
    | some n => n.c.getD (netLeadTime nodes cst k).toNat 0
    | none => 0)

/-- All CST vectors with `cst[k] ≤ bound[k]`. -/
def allCst : List Nat → List (List Nat)
  | [] => [[]]
  | b :: bs => (List.range (b + 1)).flatMap fun s => (allCst bs).map fun t => s :: t

/-- Exhaustive optimum over feasible integer CST vectors within the bounds (used as a labelled test for trees). -/
def bruteForce (nodes : List TNode) (bounds : List Nat) : Option (Rat × Nat) :=
  firstMin (((allCst bounds).filter (treeFeasible nodes)).map (treeCost nodes))

end Stockpyl.GSM
