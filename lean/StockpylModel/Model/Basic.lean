/-
Shared, import-free building blocks of the executable models.
Everything here is total and computable over core `List`/`Nat`/`Int`/`Rat`.
-/
namespace Stockpyl

/-- Sum of a list of rationals (left-to-right, as Python's `sum`/accumulating loops). -/
def lsum : List Rat → Rat
  | [] => 0
  | x :: xs => x + lsum xs

/-- `pos x = max(0, x)`, `neg x = max(0, -x)`. -/
def pos (x : Rat) : Rat := max 0 x
def neg (x : Rat) : Rat := max 0 (-x)

/-- Value and index of the *first* minimum of a non-empty list, scanning left to right with a
strict `<` incumbent test (the idiom used by every `if cost < best_cost:` loop in stockpyl).
`firstMinFrom best bi i l` continues a scan whose incumbent is `best` at index `bi`; `i` is the
index of the head of `l`. -/
def firstMinFrom (best : Rat) (bi : Nat) : Nat → List Rat → Rat × Nat
  | _, [] => (best, bi)
  | i, x :: xs => if x < best then firstMinFrom x i (i+1) xs else firstMinFrom best bi (i+1) xs

def firstMin : List Rat → Option (Rat × Nat)
  | [] => none
  | x :: xs => some (firstMinFrom x 0 1 xs)

end Stockpyl
