import StockpylModel.Model.Basic
/-
Model of the Poisson (r,Q) routines of `stockpyl.rq` over an abstract one-period cost `G : Int → Rat`
(the Poisson newsvendor cost `h·n̄(y) + p·n(y)`; its values are supplied by the harness as SciPy computes
them): `r_q_cost_poisson` (rq.py:679-700), the Federgruen–Zheng search `r_q_poisson_exact` (767-824) and
the bisection of `r_q_optimal_r_for_q` (183-223) over an abstract cost curve.
-/
namespace Stockpyl.RQ
open Stockpyl

/-- `Σ_{y=r+1}^{r+Q} G(y)`. -/
def windowSum (G : Int → Rat) (r : Int) : Nat → Rat
  | 0 => 0
  | q+1 => windowSum G r q + G (r + (q + 1 : Nat))

/-- `(K·λ + Σ_{y=r+1}^{r+Q} G(y)) / Q`. -/
def cost (G : Int → Rat) (Klam : Rat) (r : Int) (Q : Nat) : Rat := (Klam + windowSum G r Q) / (Q : Rat)

structure Sol where
  r : Int
  Q : Nat
  g : Rat
deriving Repr

/-- Federgruen–Zheng loop: state (r, Q, g) with `g = cost r Q`; grow the window by the cheaper neighbour
until the average cost goes up. -/
def fzLoop (G : Int → Rat) (Klam : Rat) : Nat → Int → Nat → Rat → Option Sol
  | 0, _, _, _ => none
  | f+1, r, Q, g =>
    let r' := if G r < G (r + (Q : Int) + 1) then r - 1 else r
    let g' := cost G Klam r' (Q + 1)
    if g' > g then some ⟨r, Q, g⟩ else fzLoop G Klam f r' (Q + 1) g'

/-- `r_q_poisson_exact` given `S` = first integer with cdf ≥ p/(p+h). -/
def fz (G : Int → Rat) (Klam : Rat) (S : Int) (fuel : Nat) : Option Sol :=
  fzLoop G Klam fuel (S - 1) 1 (cost G Klam (S - 1) 1)

/-- First index whose cdf value reaches `alpha` (cdf given as the list F(0), F(1), …). -/
def firstReach (alpha : Rat) : List Rat → Nat → Option Nat
  | [], _ => none
  | F :: rest, i => if F < alpha then firstReach alpha rest (i + 1) else some i

/-- Bisection of `r_q_optimal_r_for_q` on an abstract curve `g`. -/
def bisect (g : Rat → Rat) (Q tol : Rat) : Nat → Rat → Rat → Option Rat
  | 0, _, _ => none
  | f+1, lo, hi =>
    let r := (lo + hi) / 2
    let d := g r - g (r + Q)
    if (if d < 0 then -d else d) > tol then
      (if g r < g (r + Q) then bisect g Q tol f lo r else bisect g Q tol f r hi)
    else some r

/-- `G` given as a table of values for `y = lo, lo+1, …`; outside the table it is extended by a large value
(the searches never leave the table on the instances the harness builds). -/
def tableFn (lo : Int) (vals : List Rat) : Int → Rat := fun y =>
  if y < lo then 1000000000 else vals.getD (y - lo).toNat 1000000000

/-- Executable check that the table is non-increasing up to `S`, non-decreasing from `S` on, and below the
out-of-table value. -/
def tableUnimodalb (lo : Int) (vals : List Rat) (S : Int) : Bool :=
  decide (lo ≤ S) && decide (S < lo + (vals.length : Int)) && vals.all (fun v => decide (v ≤ 1000000000)) &&
  (List.range (vals.length - 1)).all fun i =>
    if lo + (i : Int) < S then decide (vals.getD (i + 1) 0 ≤ vals.getD i 0)
    else decide (vals.getD i 0 ≤ vals.getD (i + 1) 0)

end Stockpyl.RQ
