import StockpylModel.Model.Basic
import StockpylModel.Model.Sim
/-
A serial system under base-stock policies, stage by stage (upstream first), specialised from the
simulator's sequence of events (sim.py `step`): no disruptions, no capacities, no order lead times,
shipment lead time of a stage = length of its inbound pipeline − 1, the external supplier ships every
order in full. It exists to state and prove the clause of C04 "for serial systems an echelon base-stock
policy and the converted local base-stock policy generate identical trajectories"; the correspondence
check runs it against the real simulator under both policies.

`il` = inventory level; `pipe` = inbound shipment pipeline (slot 0 arrives this period); `S` = LOCAL
base-stock level. Backorders owed to the next stage are `neg il`; what a stage has on order is its
pipeline plus the backorders its supplier owes it.
-/
namespace Stockpyl.SerialEch
open Stockpyl
open Stockpyl.Sim (shiftPipe addAt)

structure Stage where
  il : Rat
  pipe : List Rat
  S : Rat
deriving Repr, DecidableEq

inductive Mode where
  | localBS      -- every stage follows base-stock with its local level `S` on its local inventory position
  | echelonBS    -- every stage follows base-stock with the converted echelon level on its echelon inventory position
deriving Repr, DecidableEq

/-- `local_to_echelon_base_stock_levels`: the echelon level of a stage is the sum of the local levels of the stage
and of everything downstream (the list is upstream first, so: of the whole suffix). -/
def echLevel : List Stage → Rat
  | [] => 0
  | s :: rest => s.S + echLevel rest

/-- Local inventory position before demand: inventory level + in transit + backordered at the supplier (`up`). -/
def lip (up : Rat) (s : Stage) : Rat := s.il + lsum s.pipe + up

/-- On hand at, and in transit to, the stages of the list. -/
def onHandAndTransit : List Stage → Rat
  | [] => 0
  | s :: rest => pos s.il + lsum s.pipe + onHandAndTransit rest

/-- Backorders at the downstream-most stage of a non-empty chain. -/
def lastNeg (s : Stage) : List Stage → Rat
  | [] => neg s.il
  | t :: rest => lastNeg t rest

/-- Echelon inventory position before demand (node_state_vars.py docstrings): on hand here and at / in transit to every
downstream stage, minus the backorders of the downstream-most stage, plus what this stage has on order. -/
def eip (up : Rat) (s : Stage) (rest : List Stage) : Rat :=
  pos s.il + (onHandAndTransit rest - lastNeg s rest) + (lsum s.pipe + up)

/-- Order phase, downstream to upstream: the order of each stage, given the external demand `d` of the period.
A stage's demand is the order of the next stage (the external demand for the last one). -/
def orders (m : Mode) (d : Rat) : Rat → List Stage → List Rat
  | _, [] => []
  | up, s :: rest =>
    let qs := orders m d (neg s.il) rest
    let io := qs.headD d
    let q := match m with
      | .localBS => max 0 (s.S - (lip up s - io))
      | .echelonBS => max 0 (echLevel (s :: rest) - (eip up s rest - io))
    q :: qs

/-- Shipment phase, upstream to downstream. `arrive` = what the supplier ships to this stage now (the stage's own order
for the first stage: the external supplier ships in full); it enters the last slot of the pipeline. The stage receives
slot 0, serves backorders and the new demand from what is on hand, and the next period starts with the pipeline advanced. -/
def ship (d : Rat) : Rat → List Rat → List Stage → List Stage
  | _, _, [] => []
  | arrive, qs, s :: rest =>
    let pipe1 := addAt s.pipe (s.pipe.length - 1) arrive
    let recv := pipe1.headD 0
    let io := (qs.drop 1).headD d
    let shipped := min (pos s.il + recv) (neg s.il + io)
    { s with il := s.il + recv - io, pipe := shiftPipe (pipe1.set 0 0) } :: ship d shipped (qs.drop 1) rest

/-- One period: (orders placed, state at the start of the next period). -/
def step (m : Mode) (d : Rat) (l : List Stage) : List Rat × List Stage :=
  let qs := orders m d 0 l
  (qs, ship d (qs.headD 0) qs l)

/-- The trajectory: per period the orders placed and the state the next period starts from. -/
def run (m : Mode) : List Rat → List Stage → List (List Rat × List Stage)
  | [], _ => []
  | d :: ds, l => let r := step m d l; r :: run m ds r.2

/-- The state the simulator starts from: inventory at the local level, an empty pipeline of `slt + 1` slots. -/
def initStage (S : Rat) (slt : Nat) : Stage := { il := S, pipe := List.replicate (slt + 1) 0, S := S }

end Stockpyl.SerialEch
