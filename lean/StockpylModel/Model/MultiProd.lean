import StockpylModel.Model.Basic
import StockpylModel.Model.Sim
/-
Product-general kernels of the simulator (multi-product nodes, arbitrary bill-of-materials numbers):
`_raw_materials_to_finished_goods` (sim.py:803-889), `NodeStateVars.inventory_position` with earmarked
units (node_state_vars.py:1041-1112) and the raw-material scaling of orders (policy.py:497-521).
Products and raw materials of ONE node are positions in lists; `bom[p][r]` is the network BOM number
(0 = product `p` does not use raw material `r`).
-/
namespace Stockpyl.MP
open Stockpyl Stockpyl.Sim

abbrev Bom := List (List Rat)

def bomAt (b : Bom) (p r : Nat) : Rat := (b.getD p []).getD r 0
def usesRM (b : Bom) (p r : Nat) : Bool := decide (0 < bomAt b p r)
def prodsFor (b : Bom) (r : Nat) : List Nat := (List.range b.length).filter (usesRM b · r)
def rmsFor (b : Bom) (nRM : Nat) (p : Nat) : List Nat := (List.range nRM).filter (usesRM b p ·)

structure RmIn where
  avail : List Rat          -- raw_material_inventory[rm] when production starts
  unitsOrdered : List Rat   -- per rm: total ordered (all suppliers) OLT+SLT periods ago
  oqfgOld : List (List Rat) -- [rm][product]: finished-goods order OLT+SLT periods ago (lead times of that rm)
deriving Repr

/-- Fraction of raw material `r` allocated to product `p`. -/
def shareFrac (b : Bom) (inp : RmIn) (r p : Nat) : Rat :=
  if inp.unitsOrdered.getD r 0 = 0 then 1 / ((prodsFor b r).length : Nat)
  else (inp.oqfgOld.getD r []).getD p 0 * bomAt b p r / inp.unitsOrdered.getD r 0

def share (b : Bom) (inp : RmIn) (r p : Nat) : Rat :=
  if 0 < inp.avail.getD r 0 then inp.avail.getD r 0 * shareFrac b inp r p else 0

/-- Finished goods of product `p` that can be made: min over its raw materials of its share, in FG units. -/
def newFG (b : Bom) (inp : RmIn) (p : Nat) : Rat :=
  lmin ((rmsFor b inp.avail.length p).map fun r => share b inp r p / bomAt b p r)

def consumed (b : Bom) (inp : RmIn) (r : Nat) : Rat :=
  lsum ((prodsFor b r).map fun p => newFG b inp p * bomAt b p r)

/-- Raw-material stock after production. -/
def rmAfter (b : Bom) (inp : RmIn) (r : Nat) : Rat := inp.avail.getD r 0 - consumed b inp r

/-! ### inventory position with earmarked units -/

/-- Subtract, product by product, the units earmarked for the other products (never below zero). -/
def earmark (pl : Rat) : List (Rat × Rat) → Rat
  | [] => pl
  | (pfg, nb) :: rest => earmark (max 0 (pl - pfg * nb)) rest

/-- One raw material as seen by the product: pipeline (RM + Σ on-order + Σ held inbound), the
(pending, BOM) pairs of the OTHER products of the node, and the product's own BOM number. -/
structure RmView where
  pipeline : Rat
  others : List (Rat × Rat)
  nb : Rat
deriving Repr

def ipMulti (il : Rat) (rms : List RmView) (excl : Bool) : Rat :=
  il + lmin (rms.map fun v => (if excl then earmark v.pipeline v.others else v.pipeline) / v.nb)

/-! ### raw-material orders of one finished-goods order -/

/-- Orders of one raw material placed with its suppliers, in order: the first supplier gets all of it. -/
def rmOrders (oq nb : Rat) (nSuppliers : Nat) : List Rat :=
  match nSuppliers with
  | 0 => []
  | k+1 => (oq * nb) :: List.replicate k 0

/-! ### period costs of a multi-product node (`sim.py:_calculate_period_costs`) -/

/-- One product of the node at the end of a period, as the cost computation reads it. -/
structure ProdCost where
  h : Rat                      -- local holding cost rate (`None` counts as 0)
  p : Rat                      -- stockout cost rate
  hTransit : Option Rat        -- in-transit rate; `none` = use the holding rate
  rev : Rat                    -- revenue per unit shipped
  il : Rat                     -- inventory level
  heldForCustomers : Rat       -- Σ over successors of outbound_disrupted_items[s][product]
  inTransit : Rat              -- Σ over internal customers of in_transit_to(s, product)
  shipped : Rat                -- Σ over successors (external included) of outbound_shipment[s][product]
deriving Repr

/-- One raw material of the node: the rate of its first internal supplier (0 when it only comes from the
external supplier), the stock and the items of it held at the node's door from that supplier. -/
structure RmCost where
  rate : Rat
  stock : Rat
  atDoor : Rat
deriving Repr

structure MpCostOut where
  hc : Rat
  sc : Rat
  ithc : Rat
  rv : Rat
  tc : Rat
deriving Repr

/-- The raw materials of the node: every raw material used by at least one product, ONCE
(`raw_materials_by_product('all')`). -/
def rmsOfNode (b : Bom) (nRM : Nat) : List Nat := (List.range nRM).filter fun r => !(prodsFor b r).isEmpty

def lastD {α} (d : α) : List α → α
  | [] => d
  | [x] => x
  | _ :: xs => lastD d xs

/-- Period costs. Holding: every product's rate × (positive inventory + items held for disrupted customers) plus,
for every raw material of the node once, the supplier's rate × (stock + items at the door). The reported revenue
is the one of the product processed last (the code assigns, it does not accumulate); the total subtracts exactly
the reported revenue. -/
def mpCosts (b : Bom) (prods : List ProdCost) (rms : List RmCost) : MpCostOut :=
  let hc := lsum (prods.map fun q => q.h * (pos q.il + q.heldForCustomers)) +
            lsum ((rmsOfNode b rms.length).map fun r =>
              let x := rms.getD r { rate := 0, stock := 0, atDoor := 0 }
              x.rate * (x.stock + x.atDoor))
  let sc := lsum (prods.map fun q => q.p * neg q.il)
  let ithc := lsum (prods.map fun q => (match q.hTransit with | none => q.h | some x => x) * q.inTransit)
  let rv := lastD 0 (prods.map fun q => q.rev * q.shipped)
  { hc := hc, sc := sc, ithc := ithc, rv := rv, tc := hc + sc + ithc - rv }

end Stockpyl.MP
