import StockpylModel.Model.Basic
import StockpylModel.Model.Sim
/-
Product-general kernels of the simulator (multi-product nodes, arbitrary bill-of-materials numbers):
`_raw_materials_to_finished_goods` (sim.py:803-889), `NodeStateVars.inventory_position` with earmarked
units (node_state_vars.py:1041-1112) and the raw-material scaling of orders (policy.py:497-521).
Products and raw materials of ONE node are positions in lists; `bom[p][r]` is the network BOM number
(0 = product `p` does not use raw material `r`).
-/
namespace Stockpyl.MP
open Stockpyl Stockpyl.Sim

abbrev Bom := List (List Rat)

def bomAt (b : Bom) (p r : Nat) : Rat := (b.getD p []).getD r 0
def usesRM (b : Bom) (p r : Nat) : Bool := decide (0 < bomAt b p r)
def prodsFor (b : Bom) (r : Nat) : List Nat := (List.range b.length).filter (usesRM b · r)
def rmsFor (b : Bom) (nRM : Nat) (p : Nat) : List Nat := (List.range nRM).filter (usesRM b p ·)

structure RmIn where
  avail : List Rat          -- raw_material_inventory[rm] when production starts
  unitsOrdered : List Rat   -- per rm: total ordered (all suppliers) OLT+SLT periods ago
  oqfgOld : List (List Rat) -- [rm][product]: finished-goods order OLT+SLT periods ago (lead times of that rm)
deriving Repr

/-- Fraction of raw material `r` allocated to product `p`. -/
def shareFrac (b : Bom) (inp : RmIn) (r p : Nat) : Rat :=
  if inp.unitsOrdered.getD r 0 = 0 then 1 / ((prodsFor b r).length : Nat)
  else (inp.oqfgOld.getD r []).getD p 0 * bomAt b p r / inp.unitsOrdered.getD r 0

def share (b : Bom) (inp : RmIn) (r p : Nat) : Rat :=
  if 0 < inp.avail.getD r 0 then inp.avail.getD r 0 * shareFrac b inp r p else 0

/-- Finished goods of product `p` that can be made: min over its raw materials of its share, in FG units. -/
def newFG (b : Bom) (inp : RmIn) (p : Nat) : Rat :=
  lmin ((rmsFor b inp.avail.length p).map fun r => share b inp r p / bomAt b p r)

def consumed (b : Bom) (inp : RmIn) (r : Nat) : Rat :=
  lsum ((prodsFor b r).map fun p => newFG b inp p * bomAt b p r)

/-- Raw-material stock after production. -/
def rmAfter (b : Bom) (inp : RmIn) (r : Nat) : Rat := inp.avail.getD r 0 - consumed b inp r

/-! ### inventory position with earmarked units -/

/-- Subtract, product by product, the units earmarked for the other products (never below zero). -/
def earmark (pl : Rat) : List (Rat × Rat) → Rat
  | [] => pl
  | (pfg, nb) :: rest => earmark (max 0 (pl - pfg * nb)) rest

/-- One raw material as seen by the product: pipeline (RM + Σ on-order + Σ held inbound), the
(pending, BOM) pairs of the OTHER products of the node, and the product's own BOM number. -/
structure RmView where
  pipeline : Rat
  others : List (Rat × Rat)
  nb : Rat
deriving Repr

def ipMulti (il : Rat) (rms : List RmView) (excl : Bool) : Rat :=
  il + lmin (rms.map fun v => (if excl then earmark v.pipeline v.others else v.pipeline) / v.nb)

/-! ### raw-material orders of one finished-goods order -/

/-- Orders of one raw material placed with its suppliers, in order: the first supplier gets all of it. -/
def rmOrders (oq nb : Rat) (nSuppliers : Nat) : List Rat :=
  match nSuppliers with
  | 0 => []
  | k+1 => (oq * nb) :: List.replicate k 0

end Stockpyl.MP
