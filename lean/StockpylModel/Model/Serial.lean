import StockpylModel.Model.Basic
import StockpylModel.Model.Helpers
/-
Models for serialisation (C17): the JSON instance store (`instances.save_instance/load_instance`), the
key codec of JSON objects (dict keys are stringified on save and re-parsed on load), and the
header/row construction of the results table (`sim_io.write_results`).
-/
namespace Stockpyl.Serial
open Stockpyl

/-! ### the instance file: a list of (name, data) records -/

abbrev Store (α : Type) := List (String × α)

def Store.load {α} (st : Store α) (name : String) : Option α := (st.find? (·.1 == name)).map (·.2)

/-- `save_instance(name, data, replace)`: replace the record with that name in place, or append. -/
def Store.save {α} (st : Store α) (name : String) (d : α) (replace : Bool) : Store α :=
  if st.any (·.1 == name) then
    if replace then st.map fun r => if r.1 == name then (name, d) else r else st
  else st ++ [(name, d)]

inductive StoreOp (α : Type) where
  | save (name : String) (d : α) (replace : Bool)
  | load (name : String)

/-- Abstract specification: a finite map. -/
def specStep {α} (m : String → Option α) : StoreOp α → (String → Option α) × Option (Option α)
  | .save n d r => if (m n).isSome ∧ r = false then (m, none) else (fun k => if k = n then some d else m k, none)
  | .load n => (m, some (m n))

def implStep {α} (st : Store α) : StoreOp α → Store α × Option (Option α)
  | .save n d r => (st.save n d r, none)
  | .load n => (st, some (st.load n))

/-! ### key codec -/

/-- Dict keys as Python has them. -/
inductive Key where
  | int (i : Int)
  | none
  | str (s : String)
deriving Repr, DecidableEq

/-! ### results table -/

/-- Columns of one node for one state variable: (column label, value). Header and row are both read off
the same list, so they cannot drift apart. -/
def headerOf (cols : List (String × Rat)) : List String := cols.map (·.1)
def rowOf (cols : List (String × Rat)) : List Rat := cols.map (·.2)

/-! ### plain attributes of a product / node through a dict (`to_dict` / `from_dict`, generic branch) -/

/-- A stored value is `none` (Python `None`) or a number; `0` is a number. -/
abbrev AttrDict := List (String × Option Rat)

/-- `to_dict`: every attribute of the list is written, whatever its value. -/
def attrsToDict (names : List String) (obj : String → Option Rat) : AttrDict := names.map fun a => (a, obj a)

/-- `from_dict`, generic branch: `value = the_dict[attr] if attr in the_dict else default` — presence decides, not truthiness. -/
def attrFromDict (d : AttrDict) (dflt : Option Rat) (a : String) : Option Rat :=
  match d.lookup a with
  | some v => v
  | none => dflt

end Stockpyl.Serial
