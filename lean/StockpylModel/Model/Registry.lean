import StockpylModel.Model.Basic
/-
The product registries of a network (supply_chain_network.py `add_product` / `remove_product` / `products`,
supply_chain_node.py `add_product` / `remove_product`): a product is a product of the network if it was added to the
network itself ("local") or if some node of the network handles it.
-/
namespace Stockpyl.Registry

structure Reg where
  loc : List Nat := []                    -- products added to the network itself
  nodes : List (Nat × List Nat) := []     -- (node, products it handles), nodes currently in the network
deriving Repr, DecidableEq

inductive Op where
  | nodeAdd (n p : Nat)
  | netAdd (p : Nat)
  | nodeRemove (n p : Nat)
  | netRemove (p : Nat)
  | removeNode (n : Nat)
deriving Repr, DecidableEq

def step (r : Reg) : Op → Reg
  | .nodeAdd n p => { r with nodes := r.nodes.map fun x => if x.1 = n ∧ ¬ p ∈ x.2 then (x.1, x.2 ++ [p]) else x }
  | .netAdd p => if p ∈ r.loc then r else { r with loc := r.loc ++ [p] }
  | .nodeRemove n p => { r with nodes := r.nodes.map fun x => if x.1 = n then (x.1, x.2.filter (· ≠ p)) else x }
  | .netRemove p => { r with loc := r.loc.filter (· ≠ p) }
  | .removeNode n => { r with nodes := r.nodes.filter (·.1 ≠ n) }

/-- `p` is a product of the network. -/
def isProduct (r : Reg) (p : Nat) : Bool := r.loc.contains p || r.nodes.any (fun x => x.2.contains p)

/-- The products of the network, as a list without repetitions (registry order: local first). -/
def products (r : Reg) : List Nat := (r.loc ++ r.nodes.flatMap (·.2)).eraseDups

def run (r : Reg) (ops : List Op) : Reg := ops.foldl step r

end Stockpyl.Registry
