import StockpylModel.Model.Basic
import StockpylModel.Model.Helpers
/-
Model of `stockpyl.demand_source` demand generation and `stockpyl.disruption_process`: for every demand
type, WHICH NumPy sampler is called with WHICH arguments (the primitive) and how its value is post-processed;
deterministic lists are replayed cyclically; the two-state Markov disruption process.
-/
namespace Stockpyl.Demand
open Stockpyl Stockpyl.Helpers

inductive DType where
  | N (mean sd : Rat)
  | P (mean : Rat)
  | UD (lo hi : Int)
  | UC (lo hi : Rat)
  | NB (n p : Rat)
  | D (list : List Rat)
  | Dsingle (x : Rat)
  | CD (vals : List Rat) (probs : List Rat)
deriving Repr

/-- The primitive: sampler name and its numeric arguments (documented NumPy semantics). -/
def primitive : DType → Option (String × List Rat)
  | .N m s => some ("normal", [m, s])
  | .P m => some ("poisson", [m])
  | .UD lo hi => some ("randint", [(lo : Rat), (hi + 1 : Int)])       -- integers in [lo, hi+1)
  | .UC lo hi => some ("uniform", [lo, hi])                           -- U[lo, hi)  (after the fix; the code passed hi − lo)
  | .NB n p => some ("negative_binomial", [n, p])
  | .CD vals probs => some ("choice", vals ++ probs)
  | .D _ => none
  | .Dsingle _ => none

/-- Post-processing of the primitive's value `u` (period `t` for deterministic demand). -/
def postprocess (ty : DType) (u : Rat) (t : Nat) : Rat :=
  match ty with
  | .N _ _ => max 0 u
  | .P _ => u
  | .UD _ _ => u
  | .UC _ _ => u
  | .NB _ _ => u
  | .CD _ _ => u
  | .D l => l.getD (t % l.length) 0
  | .Dsingle x => x

/-- `generate_demand(period)`: optional rounding to an integer (NumPy rounds half to even). -/
def generate (ty : DType) (roundToInt : Bool) (u : Rat) (t : Nat) : Rat :=
  let d := postprocess ty u t
  if roundToInt then (roundHalfEven d : Int) else d

/-- A probability vector is accepted when it sums to one within rounding. -/
def probsOK (probs : List Rat) (tol : Rat) : Bool := decide (rabs (lsum probs - 1) ≤ tol)

/-! ### moments of finite pmfs on consecutive integers starting at `lo` (values `lo + i`) -/

def mass (p : List Rat) : Rat := lsum p
def firstMoment : List Rat → Nat → Rat
  | [], _ => 0
  | q :: qs, i => q * (i : Rat) + firstMoment qs (i + 1)

/-! ### disruption process -/

/-- Two-state Markov chain: next state from the current state and a U[0,1) draw `u`
(`rand() <= 1 − β` keeps a disrupted node disrupted; `rand() <= α` disrupts a working node). -/
def markovStep (alpha beta : Rat) (disrupted : Bool) (u : Rat) : Bool :=
  if disrupted then decide (u ≤ 1 - beta) else decide (u ≤ alpha)

def explicitState (l : List Bool) (t : Nat) : Bool := l.getD (t % l.length) false

def steadyState (alpha beta : Rat) : Rat × Rat := (beta / (alpha + beta), alpha / (alpha + beta))

def explicitDownFraction (l : List Bool) : Rat := ((l.filter id).length : Rat) / (l.length : Rat)

end Stockpyl.Demand
