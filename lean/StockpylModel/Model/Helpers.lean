import StockpylModel.Model.Basic
/-
Models of `stockpyl.helpers` (numerical and container helpers).
Dicts are association lists in insertion order (Python dict order); keys are `Option Int`
(`none` = Python's `None`) or `Int`.
-/
namespace Stockpyl.Helpers
open Stockpyl

def rabs (x : Rat) : Rat := if x < 0 then -x else x

/-- `math.isclose(a, b, rel_tol, abs_tol)` for finite values. -/
def isclose (a b rel abs : Rat) : Bool :=
  decide (rabs (a - b) ≤ max (rel * max (rabs a) (rabs b)) abs)

abbrev Dict := List (Int × Rat)

def Dict.get? (d : Dict) (k : Int) : Option Rat := (d.find? (·.1 == k)).map (·.2)

/-- One direction of `dict_match`: every key of `d1` matches in `d2` (a missing key counts as 0
unless `req`). -/
def halfMatch (d1 d2 : Dict) (req : Bool) (rel abs : Rat) : Bool :=
  d1.all fun (k, v) =>
    match d2.get? k with
    | some w => isclose v w rel abs
    | none => isclose v 0 rel abs && !req

/-- `dict_match(d1, d2, require_presence, rel_tol, abs_tol)` (helpers.py:62-106, after the fix of the
second loop, which tested `key in d2` instead of `key in d1`). -/
def dictMatch (d1 d2 : Dict) (req : Bool) (rel abs : Rat) : Bool :=
  halfMatch d1 d2 req rel abs && halfMatch d2 d1 req rel abs

/-! ### find_nearest -/

/-- Unsorted mode: `np.abs(array - v).argmin()` — first index of a minimal distance. -/
def nearestUnsorted (a : List Rat) (v : Rat) : Option Nat :=
  (firstMin (a.map fun x => rabs (x - v))).map (·.2)

/-- `np.searchsorted(array, v, side='left')` on a sorted array: number of elements `< v`. -/
def searchLeft (a : List Rat) (v : Rat) : Nat := (a.takeWhile (· < v)).length

/-- Sorted mode (helpers.py:352-359). -/
def nearestSorted (a : List Rat) (v : Rat) : Nat :=
  let idx := searchLeft a v
  if 0 < idx ∧ (idx = a.length ∨ rabs (v - a.getD (idx-1) 0) < rabs (v - a.getD idx 0)) then idx - 1 else idx

/-! ### convolution -/

/-- `c[k] = Σ_{i+j=k} a[i]·b[j]`, built by shifting: `a ⊛ (b₀ :: bs) = b₀·a + shift (a ⊛ bs)`. -/
def addLists : List Rat → List Rat → List Rat
  | [], ys => ys
  | xs, [] => xs
  | x :: xs, y :: ys => (x + y) :: addLists xs ys

def conv (a : List Rat) : List Rat → List Rat
  | [] => []
  | b :: bs => addLists (a.map (· * b)) (0 :: conv a bs)

/-- `convolve_many(arrays)` as exact direct convolution. -/
def convMany : List (List Rat) → List Rat
  | [] => [1]
  | a :: rest => conv a (convMany rest)

/-- pmf of the sum of `n` discrete uniforms on `lo..hi`, as values for `n·lo, …, n·hi`. -/
def sumDiscreteUniforms (n : Nat) (lo hi : Int) : List Rat :=
  let k := (hi - lo + 1).toNat
  convMany (List.replicate n (List.replicate k (1 / (k : Rat))))

def fact : Nat → Nat
  | 0 => 1
  | n+1 => (n+1) * fact n

def choose : Nat → Nat → Nat
  | _, 0 => 1
  | 0, _+1 => 0
  | n+1, k+1 => choose n k + choose n (k+1)

def rpow (x : Rat) : Nat → Rat
  | 0 => 1
  | n+1 => x * rpow x n

/-- `irwin_hall_cdf(x, n)` for `0 ≤ x`: `(1/n!) Σ_{k=0}^{⌊x⌋} (-1)^k C(n,k) (x-k)^n`. -/
def irwinHall (x : Rat) (n : Nat) : Rat :=
  lsum ((List.range (x.floor.toNat + 1)).map fun k =>
    (if k % 2 = 0 then (1 : Rat) else -1) * (choose n k : Nat) * rpow (x - (k : Nat)) n) / (fact n : Nat)

/-- cdf of the sum of `n` U[lo,hi] (helpers.py:1115-1160). -/
def sumContinuousUniformsCdf (n : Nat) (lo hi x : Rat) : Rat :=
  if x < n * lo then 0 else if x > n * hi then 1 else irwinHall ((x - n * lo) / (hi - lo)) n

/-! ### list / dict normalisers -/

inductive Arg where
  | none
  | scalar (x : Rat)
  | list (xs : List Rat)
deriving Repr

/-- `ensure_list_for_nodes(x, num_nodes, default)`; `Option Rat` elements because `default` may be `None`. -/
def ensureListForNodes (x : Arg) (n : Nat) (dflt : Option Rat) : Option (List (Option Rat)) :=
  match x with
  | .none => some (List.replicate n dflt)
  | .scalar v => some (List.replicate n (some v))
  | .list xs => if xs.length = n then some (xs.map some) else Option.none

/-- `ensure_list_for_time_periods(x, num_periods)`: a list indexed 0..T whose element 0 is ignored. A singleton (`None`
included) is repeated T times behind a 0; a list of length T+1 is returned as it is; a list of length T is shifted
right behind a 0 (a NEW list: the argument is a value here, so it cannot change); any other length is a `ValueError`. -/
def ensureListForTimePeriods (x : Arg) (T : Nat) : Option (List (Option Rat)) :=
  match x with
  | .none => some (some 0 :: List.replicate T Option.none)
  | .scalar v => some (some 0 :: List.replicate T (some v))
  | .list xs =>
    if xs.length = T + 1 then some (xs.map some)
    else if xs.length = T then some (some 0 :: xs.map some)
    else Option.none

/-- `ensure_dict_for_nodes(x, node_indices, default)` for non-dict `x`. -/
def ensureDictForNodes (x : Arg) (idx : List Int) (dflt : Option Rat) : Option (List (Int × Option Rat)) :=
  match x with
  | .none => some (idx.map fun i => (i, dflt))
  | .scalar v => some (idx.map fun i => (i, some v))
  | .list xs => if xs.length = idx.length then some (idx.zip (xs.map some)) else Option.none

def insertSorted (kv : Int × Rat) : List (Int × Rat) → List (Int × Rat)
  | [] => [kv]
  | x :: xs => if kv.1 ≤ x.1 then kv :: x :: xs else x :: insertSorted kv xs

def sortByKey (d : List (Int × Rat)) : List (Int × Rat) := d.foldr insertSorted []

/-- `sort_dict_by_keys(d, ascending, return_values=True)` with an optional `None` key: `None` sorts
before every number. Input: value of the `None` key (if present) and the numeric-key part. -/
def sortDictByKeys (noneVal : Option Rat) (d : List (Int × Rat)) (asc : Bool) : List Rat :=
  let s := (sortByKey d).map (·.2)
  let s := if asc then s else s.reverse
  match noneVal with
  | Option.none => s
  | some v => if asc then v :: s else s ++ [v]

/-- `change_dict_key(d, old, new)`: `d[new] = d.pop(old)` on an insertion-ordered dict
(KeyError when `old` is absent). -/
def changeDictKey (d : Dict) (old new : Int) : Option Dict :=
  match d.get? old with
  | Option.none => Option.none
  | some v =>
    let d' := d.filter (·.1 != old)
    if d'.any (·.1 == new) then some (d'.map fun kv => if kv.1 == new then (new, v) else kv)
    else some (d' ++ [(new, v)])

/-- `compare_unhashable_lists(l1, l2)`: same length, and removing the elements of `l2` one by one from
`l1` succeeds and leaves nothing. -/
def compareLists (l1 l2 : List Int) : Bool := l1.length == l2.length && l2.isPerm l1

/-- Python's `round` (half to even), `math.floor`, `math.ceil`. -/
def roundHalfEven (x : Rat) : Int :=
  let f := x.floor
  let r := x - f
  if r < 1/2 then f else if r > 1/2 then f + 1 else if f % 2 = 0 then f else f + 1

def roundValue (ty : String) (x : Rat) : Rat :=
  if ty = "up" then (x.ceil : Int) else if ty = "down" then (x.floor : Int)
  else if ty = "nearest" then (roundHalfEven x : Int) else x

end Stockpyl.Helpers
