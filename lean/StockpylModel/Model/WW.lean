import StockpylModel.Model.Basic
/-
Model of `stockpyl.wagner_whitin.wagner_whitin` (wagner_whitin.py:126-159) after parameter
normalisation (`helpers.ensure_list_for_time_periods`, modelled in `Model/Helpers.lean`).

A horizon is the list of its periods `1..T`, each carrying its own `h_t, K_t, c_t, d_t`.
-/
namespace Stockpyl.WW

structure Period where
  h : Rat
  K : Rat
  c : Rat
  d : Rat
deriving Repr

/-- Variable cost of serving demands `ds` (periods `t+off, t+off+1, …`) from an order placed in
period `t` with purchase cost `c` and holding cost `h` (the code uses the *ordering* period's
`h` and `c`): `Σ c·d_i + h·(i−t)·d_i`. -/
def varCost (h c : Rat) : Nat → List Rat → Rat
  | _, [] => 0
  | off, d :: ds => (c * d + h * off * d) + varCost h c (off+1) ds

/-- Documented cost of one order that covers the non-empty block `seg` of consecutive periods. -/
def segCost : List Period → Rat
  | [] => 0
  | p :: rest => p.K + varCost p.h p.c 0 (p.d :: rest.map Period.d)

/-- Candidates `cost(s)` for `s = t+1 … T+1` of period `t`'s minimisation, given the demands of the
later periods and the costs-to-go `θ_{t+1}, …, θ_{T+1}`. `acc` is the fixed+variable cost of
covering `t … s−1` accumulated so far, `off = s − t`. -/
def cands (h c : Rat) : Rat → Nat → List Rat → List Rat → List Rat
  | _, _, _, [] => []
  | acc, _, [], t :: _ => [acc + t]
  | acc, off, d :: ds, t :: ts => (acc + t) :: cands h c (acc + (c * d + h * off * d)) (off+1) ds ts

/-- `thetas ps = [(θ_t, k_t), (θ_{t+1}, k_{t+1}), …, (θ_{T+1}=0, 0)]` for the suffix `ps` that starts
at period `t`; `k` is the number of periods covered by the order placed in that period (so the
next order period is `s_t = t + k_t`). Strict `<` ⇒ the first minimiser wins, as in the code. -/
def thetas : List Period → List (Rat × Nat)
  | [] => [(0, 0)]
  | p :: rest =>
    let tl := thetas rest
    match firstMin (cands p.h p.c (p.K + (p.c * p.d + p.h * 0 * p.d)) 1 (rest.map Period.d) (tl.map Prod.fst)) with
    | some (v, j) => (v, j+1) :: tl
    | none => (0, 0) :: tl     -- unreachable: `tl` is never empty

def theta (ps : List Period) : Rat := match thetas ps with
  | [] => 0
  | x :: _ => x.1

/-- Order quantities `Q_1..Q_T` from the block lengths: follow the pointer chain from period 1.
`skip` = periods still covered by the previous order. -/
def quantities : Nat → List Period → List (Rat × Nat) → List Rat
  | _, [], _ => []
  | _, _ :: _, [] => []
  | 0, p :: rest, (_, k) :: ts =>
      lsum ((p :: rest).take k |>.map Period.d) :: quantities (k-1) rest ts
  | skip+1, _ :: rest, _ :: ts => 0 :: quantities skip rest ts

structure Result where
  Q : List Rat          -- periods 1..T
  cost : Rat
  theta : List Rat      -- periods 1..T+1
  next : List Nat       -- periods 1..T (absolute period numbers)
deriving Repr

def nextPeriods : Nat → List (Rat × Nat) → List Nat
  | _, [] => []
  | _, [_] => []
  | t, (_, k) :: rest => (t + k) :: nextPeriods (t+1) rest

def solve (ps : List Period) : Result :=
  let th := thetas ps
  { Q := quantities 0 ps th, cost := theta ps, theta := th.map Prod.fst, next := nextPeriods 1 th }

/-- The blocks of the returned plan (consecutive periods covered by one order each): follow the
next-order pointers from period 1. `fuel ≥ ps.length` suffices because every block is non-empty. -/
def blocks : Nat → List Period → List (List Period)
  | 0, _ => []
  | _, [] => []
  | fuel+1, p :: rest =>
    match thetas (p :: rest) with
    | (_, k) :: _ => (p :: rest).take k :: blocks fuel ((p :: rest).drop k)
    | [] => []

/-- Order quantities of a plan given by blocks: the whole block demand in its first period. -/
def blockQ : List (List Period) → List Rat
  | [] => []
  | b :: bs => (lsum (b.map Period.d) :: List.replicate (b.length - 1) 0) ++ blockQ bs

/-- End-of-period inventories when ordering `qs` against demands `ds` from inventory `x`. -/
def invTrace (x : Rat) : List Rat → List Rat → List Rat
  | q :: qs, d :: ds => (x + q - d) :: invTrace (x + q - d) qs ds
  | _, _ => []

/-- Cost of an arbitrary plan given as consecutive blocks. -/
def planCost : List (List Period) → Rat
  | [] => 0
  | s :: ss => segCost s + planCost ss

/-! ### Entry point with the three parameter-shape conventions -/

/-- A parameter as the caller passes it: a singleton or a list (NumPy arrays are `tolist()`ed). -/
inductive Param where
  | scalar (x : Rat)
  | list (xs : List Rat)
deriving Repr

/-- All raw values of a parameter (the non-negativity check looks at every element given,
including the ignored 0th element of a length-`T+1` list). -/
def Param.raw : Param → List Rat
  | .scalar x => [x]
  | .list xs => xs

/-- `helpers.ensure_list_for_time_periods`, returning the values of periods `1..T`
(the code returns a 1-indexed list with a dummy 0th element; only `1..T` is ever read). -/
def Param.norm (T : Nat) : Param → Option (List Rat)
  | .scalar x => some (List.replicate T x)
  | .list xs => if xs.length = T + 1 then some xs.tail else if xs.length = T then some xs else none

def zipPeriods : List Rat → List Rat → List Rat → List Rat → List Period
  | h :: hs, k :: ks, c :: cs, d :: ds => ⟨h, k, c, d⟩ :: zipPeriods hs ks cs ds
  | _, _, _, _ => []

inductive Err where
  | valueError
deriving Repr, DecidableEq

/-- `wagner_whitin(num_periods, holding_cost, fixed_cost, demand, purchase_cost)`. -/
def wagnerWhitin (T : Nat) (h K d c : Param) : Except Err Result :=
  if (h.raw ++ K.raw ++ d.raw ++ c.raw).any (· < 0) then .error .valueError else
  match h.norm T, K.norm T, d.norm T, c.norm T with
  | some hs, some ks, some ds, some cs => .ok (solve (zipPeriods hs ks cs ds))
  | _, _, _, _ => .error .valueError

end Stockpyl.WW
