import StockpylModel.Lemmas.SimNet
/-!
Node-level projections of the simulator model: which operations change a node's inventory level and the
backorders of its out-edges (for the network-level form of C02).
-/
namespace Stockpyl.Sim
open Stockpyl

/-! ### node records under `modNode` / `modEdge` -/

theorem node_modNode_ne (st : State) (m n : Nat) (f : NodeSt → NodeSt) (h : m ≠ n) :
    (st.modNode m f).node n = st.node n := by
  simp only [State.modNode, State.node, List.getD_eq_getElem?_getD, List.getElem?_modify]
  simp [h]

theorem node_modNode_self (st : State) (n : Nat) (f : NodeSt → NodeSt) (h : n < st.nodes.length) :
    (st.modNode n f).node n = f (st.node n) := by
  simp only [State.modNode, State.node, List.getD_eq_getElem?_getD, List.getElem?_modify]
  simp [List.getElem?_eq_getElem h]

/-- A node update that keeps `il` keeps every node's `il`. -/
theorem il_modNode (st : State) (m n : Nat) (f : NodeSt → NodeSt) (hf : ∀ x, (f x).il = x.il) :
    ((st.modNode m f).node n).il = (st.node n).il := by
  by_cases h : m = n
  · subst h
    by_cases hl : m < st.nodes.length
    · rw [node_modNode_self st m f hl]; exact hf _
    · simp only [State.modNode, State.node, List.getD_eq_getElem?_getD, List.getElem?_modify]
      simp [List.getElem?_eq_none (Nat.le_of_not_lt hl)]
  · rw [node_modNode_ne st m n f h]

@[simp] theorem nodes_length_modNode (st : State) (m : Nat) (f : NodeSt → NodeSt) :
    (st.modNode m f).nodes.length = st.nodes.length := by simp [State.modNode]

@[simp] theorem node_modEdge (st : State) (e : Nat) (f : EdgeSt → EdgeSt) (n : Nat) :
    (st.modEdge e f).node n = st.node n := rfl

@[simp] theorem node_modEdges (st : State) (es : List Nat) (f : Nat → EdgeSt → EdgeSt) (n : Nat) :
    (st.modEdges es f).node n = st.node n := by
  simp only [State.node, nodes_modEdges]

theorem edge_out_of_range (st : State) (e : Nat) (h : st.edges.length ≤ e) : st.edge e = {} := by
  simp [State.edge, List.getD_eq_getElem?_getD, List.getElem?_eq_none h]

/-- If an edge-local function keeps `bo`, `modEdges` keeps every edge's `bo`. -/
theorem bo_modEdges (st : State) (es : List Nat) (f : Nat → EdgeSt → EdgeSt)
    (hf : ∀ x ed, (f x ed).bo = ed.bo) (e : Nat) : ((st.modEdges es f).edge e).bo = (st.edge e).bo := by
  induction es generalizing st with
  | nil => rfl
  | cons x xs ih =>
    simp only [State.modEdges, List.foldl_cons] at ih ⊢
    rw [ih]
    by_cases hx : x = e
    · subst hx
      by_cases hl : x < st.edges.length
      · rw [edge_modEdge_self st x _ hl]; exact hf _ _
      · rw [edge_out_of_range _ x (by simpa using Nat.le_of_not_lt hl),
            edge_out_of_range st x (Nat.le_of_not_lt hl)]
    · rw [edge_modEdge_ne st x e _ hx]

/-! ### the order phase changes neither inventory levels nor backorders -/

theorem orderOp_keeps (net : Net) (m : Nat) (s : State) :
    (∀ n, ((orderOp net m s).node n).il = (s.node n).il) ∧
    (∀ e, ((orderOp net m s).edge e).bo = (s.edge e).bo) ∧
    (orderOp net m s).nodes.length = s.nodes.length := by
  have r1 : ∀ n, ((receiveOrders net m s).node n).il = (s.node n).il := by
    intro n; simp only [receiveOrders]
    refine (il_modNode _ m n _ ?_).trans ?_
    · intro x; rfl
    · simp
  have r2 : ∀ e, ((receiveOrders net m s).edge e).bo = (s.edge e).bo := by
    intro e; simp only [receiveOrders, edge_modNode]
    exact bo_modEdges s _ (fun _ => recvOrderEdge) (fun _ _ => rfl) e
  have r3 : (receiveOrders net m s).nodes.length = s.nodes.length := by simp [receiveOrders]
  refine ⟨?_, ?_, ?_⟩
  · intro n
    simp only [orderOp, placeOrders]
    split
    · exact r1 n
    · refine (il_modNode _ m n _ ?_).trans ?_
      · intro x; rfl
      · simp only [node_modEdges]; exact r1 n
  · intro e
    simp only [orderOp, placeOrders]
    split
    · exact r2 e
    · simp only [edge_modNode]
      refine (bo_modEdges _ _ _ ?_ e).trans ?_
      · intro x ed; simp only [placeOrderEdge]; split <;> rfl
      · exact r2 e
  · simp only [orderOp, placeOrders]
    split
    · exact r3
    · simp [r3]

/-! ### the shipping loop against its pure form -/

def flagsOf (net : Net) (st : State) (e : Nat) : Bool × Bool :=
  match (net.edge e).dst with
  | some m => (isDisr net st m .SP, false)
  | none => (false, true)

theorem shipLoop_cons (net : Net) (st : State) (x : Nat) (xs : List Nat) (s : State) (oh dm io : Rat) :
    shipLoop net st (x :: xs) s oh dm io =
      shipLoop net st xs (s.modEdge x fun _ => (shipOne oh (flagsOf net st x).1 (flagsOf net st x).2 (s.edge x)).e)
        (shipOne oh (flagsOf net st x).1 (flagsOf net st x).2 (s.edge x)).oh
        (dm + (shipOne oh (flagsOf net st x).1 (flagsOf net st x).2 (s.edge x)).dmfs) (io + (s.edge x).io) := by
  simp only [shipLoop, flagsOf]
  cases (net.edge x).dst <;> rfl

theorem shipLoop_frame (net : Net) (st : State) (es : List Nat) :
    ∀ (s : State) (oh dm io : Rat) (e : Nat), e ∉ es →
      (shipLoop net st es s oh dm io).1.edge e = s.edge e ∧
      (shipLoop net st es s oh dm io).1.nodes = s.nodes := by
  induction es with
  | nil => intro s oh dm io e _; simp [shipLoop]
  | cons x xs ih =>
    intro s oh dm io e he
    rw [shipLoop_cons]
    obtain ⟨a, b⟩ := ih (s.modEdge x fun _ => (shipOne oh (flagsOf net st x).1 (flagsOf net st x).2 (s.edge x)).e)
      (shipOne oh (flagsOf net st x).1 (flagsOf net st x).2 (s.edge x)).oh
      (dm + (shipOne oh (flagsOf net st x).1 (flagsOf net st x).2 (s.edge x)).dmfs) (io + (s.edge x).io) e
      (fun hm => he (by simp [hm]))
    refine ⟨?_, by rw [b]; rfl⟩
    rw [a]; exact edge_modEdge_ne _ _ _ _ (fun hx => he (by simp [hx]))

theorem shipLoop_shipAll (net : Net) (st : State) (es : List Nat) :
    ∀ (s : State) (oh dm io : Rat), es.Nodup → (∀ e ∈ es, e < s.edges.length) →
      es.map (fun e => (shipLoop net st es s oh dm io).1.edge e) =
        (shipAll oh (es.map fun e => ((flagsOf net st e).1, (flagsOf net st e).2, s.edge e))).1 ∧
      (shipLoop net st es s oh dm io).2.2.2 =
        io + sumIO (es.map fun e => s.edge e) := by
  induction es with
  | nil => intro s oh dm io _ _; simp [shipLoop, shipAll, sumIO, lsum]; grind
  | cons x xs ih =>
    intro s oh dm io hnd hl
    have hnd' := List.nodup_cons.mp hnd
    rw [shipLoop_cons]
    have hxl : x < s.edges.length := hl x (by simp)
    -- the other edges look the same in the updated state
    have same : ∀ e ∈ xs, (s.modEdge x fun _ => (shipOne oh (flagsOf net st x).1 (flagsOf net st x).2 (s.edge x)).e).edge e
        = s.edge e := by
      intro e he
      exact edge_modEdge_ne _ _ _ _ (fun h => hnd'.1 (h ▸ he))
    obtain ⟨i1, i2⟩ := ih (s.modEdge x fun _ => (shipOne oh (flagsOf net st x).1 (flagsOf net st x).2 (s.edge x)).e)
      (shipOne oh (flagsOf net st x).1 (flagsOf net st x).2 (s.edge x)).oh
      (dm + (shipOne oh (flagsOf net st x).1 (flagsOf net st x).2 (s.edge x)).dmfs) (io + (s.edge x).io)
      hnd'.2 (fun e he => by simpa using hl e (by simp [he]))
    have hx : (shipLoop net st xs (s.modEdge x fun _ => (shipOne oh (flagsOf net st x).1 (flagsOf net st x).2 (s.edge x)).e)
        (shipOne oh (flagsOf net st x).1 (flagsOf net st x).2 (s.edge x)).oh
        (dm + (shipOne oh (flagsOf net st x).1 (flagsOf net st x).2 (s.edge x)).dmfs) (io + (s.edge x).io)).1.edge x
        = (shipOne oh (flagsOf net st x).1 (flagsOf net st x).2 (s.edge x)).e := by
      rw [(shipLoop_frame net st xs _ _ _ _ x hnd'.1).1]
      exact edge_modEdge_self s x _ hxl
    have hmap1 : (xs.map fun e => ((flagsOf net st e).1, (flagsOf net st e).2,
        (s.modEdge x fun _ => (shipOne oh (flagsOf net st x).1 (flagsOf net st x).2 (s.edge x)).e).edge e))
        = xs.map fun e => ((flagsOf net st e).1, (flagsOf net st e).2, s.edge e) := by
      apply List.map_congr_left
      intro e he; rw [same e he]
    have hmap2 : (xs.map fun e =>
        (s.modEdge x fun _ => (shipOne oh (flagsOf net st x).1 (flagsOf net st x).2 (s.edge x)).e).edge e)
        = xs.map fun e => s.edge e := by
      apply List.map_congr_left
      intro e he; rw [same e he]
    rw [hmap1] at i1
    rw [hmap2] at i2
    constructor
    · simp only [List.map_cons, shipAll]
      rw [hx, i1]
    · rw [i2]
      simp only [List.map_cons, sumIO, lsum]
      grind

/-! ### one node of the shipment phase: inventory level and backorders -/

theorem shipLoop_spec_len (net : Net) (st : State) (es : List Nat) :
    ∀ (s : State) (oh dm io : Rat), (shipLoop net st es s oh dm io).1.edges.length = s.edges.length := by
  induction es with
  | nil => intro s oh dm io; rfl
  | cons x xs ih => intro s oh dm io; rw [shipLoop_cons, ih]; simp

theorem shipLoop_nodes (net : Net) (st : State) (es : List Nat) :
    ∀ (s : State) (oh dm io : Rat), (shipLoop net st es s oh dm io).1.nodes = s.nodes := by
  induction es with
  | nil => intro s oh dm io; rfl
  | cons x xs ih => intro s oh dm io; rw [shipLoop_cons, ih]; rfl

theorem pre_out (net : Net) (hwf : NetWF net) (m : Nat) (s : State) (e : Nat) (hl : e < s.edges.length)
    (hni : e ∉ (net.cfg m).inE) : (rmToFg net m (receiveShipments net m s)).edge e = s.edge e := by
  rw [rmToFg_edge net hwf m _ e (by simpa using hl), if_neg hni,
      receiveShipments_edge net hwf m s e hl, if_neg hni]

/-- The state in which node `m` runs its shipping loop. -/
def preShip (net : Net) (m : Nat) (s : State) : State := rmToFg net m (receiveShipments net m s)

theorem preShip_node (net : Net) (m : Nat) (s : State) (hm : m < s.nodes.length) :
    ((preShip net m s).node m).il = (s.node m).il + producible net (receiveShipments net m s) m ∧
    ((preShip net m s).node m).newFG = producible net (receiveShipments net m s) m := by
  simp only [preShip, rmToFg]
  rw [node_modNode_self _ m _ (by simpa [receiveShipments] using hm)]
  simp [receiveShipments]

/-- Result of node `m`'s shipping loop. -/
def loopOf (net : Net) (m : Nat) (s : State) : State × Rat × Rat × Rat :=
  shipLoop net (preShip net m s) (net.cfg m).outE (preShip net m s)
    (pos (s.node m).il + ((preShip net m s).node m).newFG) 0 0

def afterLoop (net : Net) (m : Nat) (s : State) : State :=
  let R := loopOf net m s
  R.1.modNode m fun x => { x with il := x.il - R.2.2.2, dmfs := R.2.2.1, dmfsCum := x.dmfsCum + R.2.2.1 }

theorem nodeShip_eq (net : Net) (m : Nat) (s : State) :
    nodeShip net m s = propagate net m (fillRate m (afterLoop net m s)) := rfl

theorem nodeShip_nodes_len (net : Net) (m : Nat) (s : State) :
    (nodeShip net m s).nodes.length = s.nodes.length := by
  rw [nodeShip_eq]
  simp only [propagate, nodes_modEdges, fillRate, afterLoop, loopOf, nodes_length_modNode, shipLoop_nodes, preShip, rmToFg,
    receiveShipments]

theorem nodeShip_il_other (net : Net) (m n : Nat) (s : State) (h : m ≠ n) :
    ((nodeShip net m s).node n).il = (s.node n).il := by
  rw [nodeShip_eq]
  simp only [propagate, node_modEdges, fillRate, afterLoop]
  rw [node_modNode_ne _ m n _ h, node_modNode_ne _ m n _ h]
  simp only [State.node, loopOf, shipLoop_nodes, preShip, rmToFg, nodes_modEdges, receiveShipments]
  show ((State.modNode _ m _).node n).il = _
  rw [node_modNode_ne _ m n _ h]
  simp [State.node, receiveShipments]

theorem nodeShip_il_self (net : Net) (hwf : NetWF net) (m : Nat) (s : State) (hm : m < s.nodes.length)
    (hlen : s.edges.length = net.edges.length) :
    ((nodeShip net m s).node m).il = (s.node m).il + producible net (receiveShipments net m s) m
        - sumIO ((net.cfg m).outE.map fun e => s.edge e) := by
  have hmX : m < (loopOf net m s).1.nodes.length := by
    simp only [loopOf]; rw [shipLoop_nodes]; simpa [preShip, rmToFg, receiveShipments] using hm
  rw [nodeShip_eq]
  simp only [propagate, node_modEdges, fillRate, afterLoop]
  rw [node_modNode_self _ m _ (by simpa using hmX), node_modNode_self _ m _ hmX]
  have hio := (shipLoop_shipAll net (preShip net m s) (net.cfg m).outE (preShip net m s)
      (pos (s.node m).il + ((preShip net m s).node m).newFG) 0 0 (hwf.outE_nodup m)
      (by intro e he; simp only [preShip, rmToFg_len, receiveShipments_len]; rw [hlen]; exact (hwf.outE_src m e he).2)).2
  have hmap : ((net.cfg m).outE.map fun e => (preShip net m s).edge e) = (net.cfg m).outE.map fun e => s.edge e := by
    apply List.map_congr_left
    intro e he
    exact pre_out net hwf m s e (by rw [hlen]; exact (hwf.outE_src m e he).2)
      (fun hi => not_in_both net hwf m e hi he)
  rw [hmap] at hio
  have hnode : ((loopOf net m s).1.node m).il = (s.node m).il + producible net (receiveShipments net m s) m := by
    simp only [State.node, loopOf, shipLoop_nodes]
    exact (preShip_node net m s hm).1
  show ((loopOf net m s).1.node m).il - (loopOf net m s).2.2.2 = _
  rw [hnode]
  show _ - (shipLoop net (preShip net m s) (net.cfg m).outE (preShip net m s)
      (pos (s.node m).il + ((preShip net m s).node m).newFG) 0 0).2.2.2 = _
  rw [hio]; grind

theorem nodeShip_bo_out (net : Net) (hwf : NetWF net) (m : Nat) (s : State)
    (hlen : s.edges.length = net.edges.length) (e : Nat) (he : e ∈ (net.cfg m).outE) :
    ((nodeShip net m s).edge e).bo = ((loopOf net m s).1.edge e).bo := by
  have hl : e < s.edges.length := by rw [hlen]; exact (hwf.outE_src m e he).2
  rw [nodeShip_eq, propagate_edge net hwf m _ e (by
    simp only [fillRate_len, afterLoop, State.modNode, loopOf]
    rw [(shipLoop_spec_len net (preShip net m s) (net.cfg m).outE (preShip net m s) _ 0 0)]
    simpa [preShip] using hl), if_pos he]
  simp only [fillRate_edge, afterLoop, edge_modNode]
  split <;> rfl

theorem nodeShip_bo_other (net : Net) (hwf : NetWF net) (m : Nat) (s : State)
    (hlen : s.edges.length = net.edges.length) (hok : StateOK s) (e : Nat) (he : e ∉ (net.cfg m).outE) :
    ((nodeShip net m s).edge e).bo = (s.edge e).bo := by
  obtain ⟨h1, h2, h3, _⟩ := nodeShip_spec net hwf m s hlen hok
  by_cases hl : e < s.edges.length
  · by_cases hi : e ∈ (net.cfg m).inE
    · rw [h3 e hi]; cases (isDisr net s m .RP) <;> rfl
    · rw [h2 e hl hi he]
  · rw [edge_out_of_range _ e (by rw [h1]; exact Nat.le_of_not_lt hl),
        edge_out_of_range s e (Nat.le_of_not_lt hl)]

end Stockpyl.Sim

namespace Stockpyl.Sim
open Stockpyl

/-! ### more frame facts for the node-level balance (C01) -/

/-- Only one node touches the projection: it undergoes that node's action exactly once. -/
theorem passG_single {α : Type} (op : Nat → State → State) (π : State → α) (P : State → Prop)
    (hP : ∀ n s, P s → P (op n s)) (g : Nat) (R : α → α → Prop)
    (hother : ∀ n s, P s → n ≠ g → π (op n s) = π s)
    (hg : ∀ s, P s → R (π s) (π (op g s))) :
    ∀ (l : List Nat) (s : State), P s → l.Nodup → g ∈ l →
      R (π s) (π (l.foldl (fun s n => op n s) s)) := by
  have none : ∀ (l : List Nat) (s : State), P s → g ∉ l → π (l.foldl (fun s n => op n s) s) = π s := by
    intro l
    induction l with
    | nil => intro s _ _; rfl
    | cons x xs ih =>
      intro s h hg'
      simp only [List.foldl_cons]
      rw [ih _ (hP x s h) (fun hm => hg' (by simp [hm]))]
      exact hother x s h (fun hx => hg' (by simp [hx]))
  intro l
  induction l with
  | nil => intro s _ _ hg'; simp at hg'
  | cons x xs ih =>
    intro s h hnd hgm
    have hnd' := List.nodup_cons.mp hnd
    simp only [List.foldl_cons]
    by_cases hx : x = g
    · subst hx
      rw [none xs _ (hP x s h) hnd'.1]
      exact hg s h
    · have hm : g ∈ xs := by
        rcases List.mem_cons.mp hgm with h' | h'
        · exact absurd h'.symm hx
        · exact h'
      have := ih _ (hP x s h) hnd'.2 hm
      rw [hother x s h hx] at this
      exact this

theorem nodeShip_node_other (net : Net) (m n : Nat) (s : State) (h : m ≠ n) :
    (nodeShip net m s).node n = s.node n := by
  rw [nodeShip_eq]
  simp only [propagate, node_modEdges, fillRate, afterLoop]
  rw [node_modNode_ne _ m n _ h, node_modNode_ne _ m n _ h]
  simp only [State.node, loopOf, shipLoop_nodes, preShip, rmToFg, nodes_modEdges, receiveShipments]
  show (State.modNode _ m _).node n = _
  rw [node_modNode_ne _ m n _ h]
  simp [State.node, receiveShipments]

theorem nodeShip_newFG_self (net : Net) (m : Nat) (s : State) (hm : m < s.nodes.length) :
    ((nodeShip net m s).node m).newFG = producible net (receiveShipments net m s) m := by
  have hmX : m < (loopOf net m s).1.nodes.length := by
    simp only [loopOf]; rw [shipLoop_nodes]; simpa [preShip, rmToFg, receiveShipments] using hm
  rw [nodeShip_eq]
  simp only [propagate, node_modEdges, fillRate, afterLoop]
  rw [node_modNode_self _ m _ (by simpa using hmX), node_modNode_self _ m _ hmX]
  show ((loopOf net m s).1.node m).newFG = _
  simp only [State.node, loopOf, shipLoop_nodes]
  exact (preShip_node net m s hm).2

/-- `nodeShip` never changes an inbound order (`io`), whoever runs it. -/
theorem nodeShip_io (net : Net) (hwf : NetWF net) (m : Nat) (s : State)
    (hlen : s.edges.length = net.edges.length) (hok : StateOK s) (e : Nat) :
    ((nodeShip net m s).edge e).io = (s.edge e).io := by
  obtain ⟨h1, h2, h3, h4⟩ := nodeShip_spec net hwf m s hlen hok
  by_cases hl : e < s.edges.length
  · by_cases ho : e ∈ (net.cfg m).outE
    · obtain ⟨oh, sp, _, hh⟩ := h4 e ho
      rw [hh]
      have fr := shipOne_frame oh sp ((net.edge e).dst.isNone) (s.edge e)
      simp only at fr
      have : (propEdge net e (shipOne oh sp ((net.edge e).dst.isNone) (s.edge e)).e).io =
          (shipOne oh sp ((net.edge e).dst.isNone) (s.edge e)).e.io := by
        unfold propEdge; split <;> rfl
      rw [this, fr.2.2.2.2.2.2.2]
    · by_cases hi : e ∈ (net.cfg m).inE
      · rw [h3 e hi]; cases (isDisr net s m .RP) <;> rfl
      · rw [h2 e hl hi ho]
  · rw [edge_out_of_range _ e (by rw [h1]; exact Nat.le_of_not_lt hl),
        edge_out_of_range s e (Nat.le_of_not_lt hl)]

/-- Raw-material stock and the receipt of an in-edge change only when its customer runs `nodeShip`. -/
theorem nodeShip_rm_other (net : Net) (hwf : NetWF net) (m : Nat) (s : State)
    (hlen : s.edges.length = net.edges.length) (hok : StateOK s) (e : Nat) (hi : e ∉ (net.cfg m).inE) :
    ((nodeShip net m s).edge e).rm = (s.edge e).rm ∧ ((nodeShip net m s).edge e).is_ = (s.edge e).is_ := by
  obtain ⟨h1, h2, _, h4⟩ := nodeShip_spec net hwf m s hlen hok
  by_cases hl : e < s.edges.length
  · by_cases ho : e ∈ (net.cfg m).outE
    · obtain ⟨oh, sp, _, hh⟩ := h4 e ho
      rw [hh]
      have fr := shipOne_frame oh sp ((net.edge e).dst.isNone) (s.edge e)
      simp only at fr
      have : (propEdge net e (shipOne oh sp ((net.edge e).dst.isNone) (s.edge e)).e).rm =
          (shipOne oh sp ((net.edge e).dst.isNone) (s.edge e)).e.rm ∧
          (propEdge net e (shipOne oh sp ((net.edge e).dst.isNone) (s.edge e)).e).is_ =
          (shipOne oh sp ((net.edge e).dst.isNone) (s.edge e)).e.is_ := by
        unfold propEdge; split <;> exact ⟨rfl, rfl⟩
      rw [this.1, this.2, fr.2.2.2.2.2.1, fr.2.1]
      exact ⟨rfl, rfl⟩
    · rw [h2 e hl hi ho]; exact ⟨rfl, rfl⟩
  · rw [edge_out_of_range _ e (by rw [h1]; exact Nat.le_of_not_lt hl),
        edge_out_of_range s e (Nat.le_of_not_lt hl)]
    exact ⟨rfl, rfl⟩

/-- The customer's own visit: the receipt goes into raw-material stock, production comes out of it. -/
theorem nodeShip_rm_self (net : Net) (hwf : NetWF net) (m : Nat) (s : State)
    (hlen : s.edges.length = net.edges.length) (hok : StateOK s) (e : Nat) (hi : e ∈ (net.cfg m).inE) :
    ((nodeShip net m s).edge e).rm =
      (s.edge e).rm + ((nodeShip net m s).edge e).is_ - producible net (receiveShipments net m s) m := by
  obtain ⟨_, _, h3, _⟩ := nodeShip_spec net hwf m s hlen hok
  rw [h3 e hi]
  cases (isDisr net s m .RP) <;> simp [consumeEdge, recvShipEdge] <;> grind

/-- The order phase and the exogenous inputs never touch raw-material stock. -/
theorem rm_modEdges (st : State) (es : List Nat) (f : Nat → EdgeSt → EdgeSt)
    (hf : ∀ x ed, (f x ed).rm = ed.rm) (e : Nat) : ((st.modEdges es f).edge e).rm = (st.edge e).rm := by
  induction es generalizing st with
  | nil => rfl
  | cons x xs ih =>
    simp only [State.modEdges, List.foldl_cons] at ih ⊢
    rw [ih]
    by_cases hx : x = e
    · subst hx
      by_cases hl : x < st.edges.length
      · rw [edge_modEdge_self st x _ hl]; exact hf _ _
      · rw [edge_out_of_range _ x (by simpa using Nat.le_of_not_lt hl),
            edge_out_of_range st x (Nat.le_of_not_lt hl)]
    · rw [edge_modEdge_ne st x e _ hx]

theorem orderOp_rm (net : Net) (m : Nat) (s : State) (e : Nat) :
    ((orderOp net m s).edge e).rm = (s.edge e).rm := by
  have r2 : ((receiveOrders net m s).edge e).rm = (s.edge e).rm := by
    simp only [receiveOrders, edge_modNode]
    refine rm_modEdges s _ _ ?_ e
    intro _ _; rfl
  simp only [orderOp, placeOrders]
  split
  · exact r2
  · simp only [edge_modNode]
    refine (rm_modEdges _ _ _ ?_ e).trans r2
    intro x ed; simp only [placeOrderEdge]; split <;> rfl

end Stockpyl.Sim
