import StockpylModel.Model.WW
import StockpylModel.Lemmas.Basic
namespace Stockpyl.WW

theorem thetas_ne_nil (ps : List Period) : thetas ps ≠ [] := by
  cases ps with
  | nil => simp [thetas]
  | cons p rest =>
    simp only [thetas]
    split <;> simp

theorem thetas_length (ps : List Period) : (thetas ps).length = ps.length + 1 := by
  induction ps with
  | nil => simp [thetas]
  | cons p rest ih =>
    simp only [thetas]
    split <;> simp [ih]

theorem thetas_tail (p : Period) (rest : List Period) : (thetas (p :: rest)).tail = thetas rest := by
  simp only [thetas]
  split <;> simp

theorem thetas_drop (ps : List Period) (j : Nat) : (thetas ps).drop j = thetas (ps.drop j) ∨ ps.length < j := by
  induction j generalizing ps with
  | zero => left; simp
  | succ j ih =>
    cases ps with
    | nil => right; simp
    | cons p rest =>
      rcases ih rest with h | h
      · left
        have : (thetas (p :: rest)).drop (j+1) = ((thetas (p :: rest)).tail).drop j := by
          simp [List.drop_tail]
        rw [this, thetas_tail, h]; simp
      · right; simp; omega

/-- `j`-th cost-to-go in the table is the cost-to-go of the `j`-th suffix. -/
theorem thetas_get (ps : List Period) (j : Nat) (hj : j ≤ ps.length) :
    ((thetas ps).map Prod.fst)[j]? = some (theta (ps.drop j)) := by
  rcases thetas_drop ps j with h | h
  · have hne := thetas_ne_nil (ps.drop j)
    have : (thetas ps)[j]? = ((thetas ps).drop j)[0]? := by simp
    rw [List.getElem?_map, this, h]
    unfold theta
    cases hh : thetas (List.drop j ps) with
    | nil => exact absurd hh hne
    | cons x xs => simp
  · omega

/-- Every candidate `j` (order covers the first `j` later periods as well) is in `cands`. -/
theorem cands_get (h c : Rat) (acc : Rat) (off : Nat) (ds ts : List Rat) (j : Nat)
    (hj : j ≤ ds.length) (t : Rat) (ht : ts[j]? = some t) :
    (cands h c acc off ds ts)[j]? = some (acc + varCost h c off (ds.take j) + t) := by
  induction j generalizing acc off ds ts with
  | zero =>
    cases ts with
    | nil => simp at ht
    | cons t0 ts =>
      simp at ht; subst ht
      cases ds <;> simp [cands, varCost] <;> grind
  | succ j ih =>
    cases ts with
    | nil => simp at ht
    | cons t0 ts =>
      cases ds with
      | nil => simp at hj
      | cons d ds =>
        simp only [cands, List.getElem?_cons_succ, List.take_succ_cons, varCost]
        rw [ih _ _ ds ts (by simpa using hj) (by simpa using ht)]
        congr 1; grind

/-- Conversely every candidate is of that form. -/
theorem cands_mem (h c : Rat) (acc : Rat) (off : Nat) (ds ts : List Rat) (x : Rat) (j : Nat)
    (hx : (cands h c acc off ds ts)[j]? = some x) :
    j ≤ ds.length ∧ ∃ t, ts[j]? = some t ∧ x = acc + varCost h c off (ds.take j) + t := by
  induction j generalizing acc off ds ts with
  | zero =>
    cases ts with
    | nil => simp [cands] at hx
    | cons t0 ts =>
      cases ds <;> simp [cands] at hx <;> simp [varCost] <;> grind
  | succ j ih =>
    cases ts with
    | nil => simp [cands] at hx
    | cons t0 ts =>
      cases ds with
      | nil => simp [cands] at hx
      | cons d ds =>
        simp only [cands, List.getElem?_cons_succ] at hx
        obtain ⟨h1, t, h2, h3⟩ := ih _ _ ds ts hx
        refine ⟨by simpa using h1, t, by simpa using h2, ?_⟩
        simp only [List.take_succ_cons, varCost]; rw [h3]; grind

theorem cands_ne_nil (h c acc : Rat) (off : Nat) (ds ts : List Rat) (hts : ts ≠ []) :
    cands h c acc off ds ts ≠ [] := by
  cases ts with
  | nil => exact absurd rfl hts
  | cons t ts => cases ds <;> simp [cands]

theorem segCost_cons_take (p : Period) (rest : List Period) (j : Nat) :
    segCost (p :: rest.take j) =
      (p.K + (p.c * p.d + p.h * 0 * p.d)) + varCost p.h p.c 1 ((rest.map Period.d).take j) := by
  simp only [segCost, varCost, List.map_take]
  grind

/-- The list of candidates of the first period of `p :: rest`. -/
def candList (p : Period) (rest : List Period) : List Rat :=
  cands p.h p.c (p.K + (p.c * p.d + p.h * 0 * p.d)) 1 (rest.map Period.d) ((thetas rest).map Prod.fst)

theorem candList_ne_nil (p : Period) (rest : List Period) : candList p rest ≠ [] := by
  apply cands_ne_nil
  simp [thetas_ne_nil]

theorem candList_get (p : Period) (rest : List Period) (j : Nat) (hj : j ≤ rest.length) :
    (candList p rest)[j]? = some (segCost (p :: rest.take j) + theta (rest.drop j)) := by
  unfold candList
  rw [cands_get _ _ _ _ _ _ j (by simpa using hj) _ (thetas_get rest j hj), segCost_cons_take]

theorem candList_mem (p : Period) (rest : List Period) (j : Nat) (x : Rat)
    (hx : (candList p rest)[j]? = some x) :
    j ≤ rest.length ∧ x = segCost (p :: rest.take j) + theta (rest.drop j) := by
  obtain ⟨h1, t, h2, h3⟩ := cands_mem _ _ _ _ _ _ _ _ hx
  have h1' : j ≤ rest.length := by simpa using h1
  refine ⟨h1', ?_⟩
  rw [thetas_get rest j h1'] at h2
  simp only [Option.some.injEq] at h2
  rw [h3, segCost_cons_take, ← h2]

theorem thetas_cons (p : Period) (rest : List Period) :
    ∃ v j, firstMin (candList p rest) = some (v, j) ∧ thetas (p :: rest) = (v, j+1) :: thetas rest := by
  obtain ⟨v, j, h⟩ := firstMin_isSome (candList_ne_nil p rest)
  refine ⟨v, j, h, ?_⟩
  unfold candList at h
  simp only [thetas, h]

theorem theta_nil : theta [] = 0 := by simp [theta, thetas]


/-! ### plan feasibility -/

theorem lsum_replicate_zero (n : Nat) : lsum (List.replicate n 0) = 0 := by
  induction n with
  | zero => simp [lsum]
  | succ n ih => simp only [List.replicate_succ, lsum, ih]; grind

theorem lsum_blockQ (bs : List (List Period)) : lsum (blockQ bs) = lsum (bs.flatten.map Period.d) := by
  induction bs with
  | nil => simp [blockQ, lsum]
  | cons b bs ih =>
    simp only [blockQ, List.cons_append, lsum, lsum_append, lsum_replicate_zero, ih,
      List.flatten_cons, List.map_append]
    grind

theorem blockQ_length (bs : List (List Period)) (hne : ∀ b ∈ bs, b ≠ []) :
    (blockQ bs).length = bs.flatten.length := by
  induction bs with
  | nil => simp [blockQ]
  | cons b bs ih =>
    have hb : b ≠ [] := hne b List.mem_cons_self
    have : 0 < b.length := List.length_pos_iff.mpr hb
    simp only [blockQ, List.length_append, List.length_cons, List.length_replicate,
      List.flatten_cons, ih (fun b hb => hne b (List.mem_cons_of_mem _ hb))]
    omega

/-- Inside a block after its first period: stock `x0 + Σ remaining demands` is run down to `x0`. -/
theorem invTrace_rundown (x0 : Rat) (ds qs' ds' : List Rat) (hd : ∀ d ∈ ds, 0 ≤ d) :
    ∃ pre, invTrace (x0 + lsum ds) (List.replicate ds.length 0 ++ qs') (ds ++ ds')
        = pre ++ invTrace x0 qs' ds' ∧ (∀ y ∈ pre, x0 ≤ y) ∧ pre.length = ds.length ∧
        (∀ y, pre.getLast? = some y → y = x0) := by
  induction ds with
  | nil =>
    refine ⟨[], ?_, by simp, by simp, by simp⟩
    simp only [lsum, List.length_nil, List.replicate_zero, List.nil_append]
    congr 1; grind
  | cons d ds ih =>
    obtain ⟨pre, h1, h2, h3, h4⟩ := ih (fun d hd' => hd d (List.mem_cons_of_mem _ hd'))
    have hd0 : 0 ≤ d := hd d List.mem_cons_self
    have hl : 0 ≤ lsum ds := by
      clear ih h1 h2 h3 h4
      induction ds with
      | nil => simp [lsum]
      | cons e es ih2 =>
        simp only [lsum]
        have := hd e (by simp)
        have := ih2 (fun d hd' => by
          apply hd; rcases List.mem_cons.mp hd' with rfl | h
          · simp
          · simp [h])
        grind
    have e : x0 + lsum (d :: ds) + 0 - d = x0 + lsum ds := by simp only [lsum]; grind
    refine ⟨(x0 + lsum ds) :: pre, ?_, ?_, by simp [h3], ?_⟩
    · simp only [List.length_cons, List.replicate_succ, List.cons_append, invTrace, e, h1]
    · intro y hy
      rcases List.mem_cons.mp hy with rfl | hy
      · grind
      · exact h2 y hy
    · intro y hy
      cases pre with
      | nil =>
        have : ds = [] := List.eq_nil_of_length_eq_zero (by simpa using h3.symm)
        subst this
        simp [lsum] at hy; grind
      | cons z zs =>
        rw [List.getLast?_cons_cons] at hy
        exact h4 y hy

theorem invTrace_blockQ (x0 : Rat) (bs : List (List Period)) (hne : ∀ b ∈ bs, b ≠ [])
    (hd : ∀ b ∈ bs, ∀ q ∈ b, 0 ≤ q.d) :
    (∀ y ∈ invTrace x0 (blockQ bs) (bs.flatten.map Period.d), x0 ≤ y) ∧
    (∀ y, (invTrace x0 (blockQ bs) (bs.flatten.map Period.d)).getLast? = some y → y = x0) ∧
    (invTrace x0 (blockQ bs) (bs.flatten.map Period.d)).length = bs.flatten.length := by
  induction bs with
  | nil => simp [blockQ, invTrace]
  | cons b bs ih =>
    obtain ⟨i1, i2, i3⟩ := ih (fun b hb => hne b (List.mem_cons_of_mem _ hb))
      (fun b hb => hd b (List.mem_cons_of_mem _ hb))
    cases b with
    | nil => exact absurd rfl (hne [] List.mem_cons_self)
    | cons p rest =>
      have hdr : ∀ d ∈ rest.map Period.d, 0 ≤ d := by
        intro d hd'
        obtain ⟨q, hq, rfl⟩ := List.mem_map.mp hd'
        exact hd (p :: rest) List.mem_cons_self q (List.mem_cons_of_mem _ hq)
      obtain ⟨pre, r1, r2, r3, r4⟩ := invTrace_rundown x0 (rest.map Period.d) (blockQ bs)
        (bs.flatten.map Period.d) hdr
      have e : x0 + lsum (p.d :: rest.map Period.d) - p.d = x0 + lsum (rest.map Period.d) := by
        simp only [lsum]; grind
      have hlen : (p :: rest).length - 1 = (rest.map Period.d).length := by simp
      have key : invTrace x0 (blockQ ((p :: rest) :: bs)) (((p :: rest) :: bs).flatten.map Period.d)
          = (x0 + lsum (rest.map Period.d)) :: (pre ++ invTrace x0 (blockQ bs) (bs.flatten.map Period.d)) := by
        simp only [blockQ, List.flatten_cons, List.map_append, List.map_cons, List.cons_append,
          invTrace, e, hlen, r1]
      rw [key]
      have hl : 0 ≤ lsum (rest.map Period.d) := by
        clear r1 key e hlen r2 r3 r4
        generalize rest.map Period.d = l at hdr
        induction l with
        | nil => simp [lsum]
        | cons e es ih2 =>
          simp only [lsum]
          have := hdr e (by simp)
          have := ih2 (fun d hd' => hdr d (List.mem_cons_of_mem _ hd'))
          grind
      refine ⟨?_, ?_, ?_⟩
      · intro y hy
        rcases List.mem_cons.mp hy with rfl | hy
        · grind
        · rcases List.mem_append.mp hy with hy | hy
          · exact r2 y hy
          · exact i1 y hy
      · intro y hy
        by_cases hb : invTrace x0 (blockQ bs) (bs.flatten.map Period.d) = []
        · rw [hb, List.append_nil] at hy
          cases pre with
          | nil =>
            have : rest.map Period.d = [] := List.eq_nil_of_length_eq_zero (by simpa using r3.symm)
            rw [this] at hy; simp [lsum] at hy; grind
          | cons z zs =>
            rw [List.getLast?_cons_cons] at hy
            exact r4 y hy
        · have : (x0 + lsum (rest.map Period.d)) :: (pre ++ invTrace x0 (blockQ bs) (bs.flatten.map Period.d))
              = ((x0 + lsum (rest.map Period.d)) :: pre) ++ invTrace x0 (blockQ bs) (bs.flatten.map Period.d) := by simp
          rw [this, List.getLast?_append] at hy
          cases hz : (invTrace x0 (blockQ bs) (bs.flatten.map Period.d)).getLast? with
          | none => exact absurd (List.getLast?_eq_none_iff.mp hz) hb
          | some z =>
            rw [hz] at hy
            simp only [Option.some_or, Option.some.injEq] at hy
            subst hy
            exact i2 _ hz
      · simp only [List.length_cons, List.length_append, r3, i3, List.flatten_cons, List.length_map]
        omega

/-! ### the returned quantities are the block plan -/

theorem quantities_skip (skip : Nat) (ps : List Period) (hs : skip ≤ ps.length) :
    quantities skip ps (thetas ps) =
      List.replicate skip 0 ++ quantities 0 (ps.drop skip) (thetas (ps.drop skip)) := by
  induction skip generalizing ps with
  | zero => simp
  | succ k ih =>
    cases ps with
    | nil => simp at hs
    | cons p rest =>
      obtain ⟨v, j, _, hth⟩ := thetas_cons p rest
      rw [hth]
      simp only [quantities, List.drop_succ_cons, List.replicate_succ, List.cons_append]
      rw [ih rest (by simpa using hs)]

theorem quantities_eq_blockQ (n : Nat) (ps : List Period) (hn : ps.length ≤ n) :
    quantities 0 ps (thetas ps) = blockQ (blocks n ps) := by
  induction n generalizing ps with
  | zero =>
    have : ps = [] := List.eq_nil_of_length_eq_zero (by omega)
    subst this
    simp [quantities, blocks, blockQ]
  | succ n ih =>
    cases ps with
    | nil => simp [quantities, blocks, blockQ]
    | cons p rest =>
      obtain ⟨v, j, hfm, hth⟩ := thetas_cons p rest
      obtain ⟨hidx, _⟩ := firstMin_index hfm
      obtain ⟨hj, _⟩ := candList_mem p rest j v hidx
      simp only [blocks, hth, quantities, blockQ, List.take_succ_cons, List.drop_succ_cons,
        Nat.add_sub_cancel, List.cons_append]
      rw [quantities_skip j rest hj, ih (rest.drop j) (by simp at hn ⊢; omega)]
      simp [Nat.min_eq_left hj]

end Stockpyl.WW
