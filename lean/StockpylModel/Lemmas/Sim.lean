import StockpylModel.Model.Sim
import StockpylModel.Lemmas.Basic
namespace Stockpyl.Sim
open Stockpyl

/-! ### list helpers -/

theorem lsum_set_zero (l : List Rat) : lsum (l.set 0 0) = lsum l - l.headD 0 := by
  cases l with
  | nil => simp only [List.set_nil, lsum, List.headD_nil]; grind
  | cons x xs => simp only [List.set_cons_zero, lsum, List.headD_cons]; grind

theorem lsum_addAt (l : List Rat) (i : Nat) (x : Rat) (h : i < l.length) :
    lsum (addAt l i x) = lsum l + x := by
  induction l generalizing i with
  | nil => simp at h
  | cons y ys ih =>
    cases i with
    | zero => simp only [addAt, List.modify_zero_cons, lsum]; grind
    | succ i =>
      simp only [addAt, List.modify_succ_cons, lsum]
      have := ih i (by simpa using h)
      simp only [addAt] at this
      rw [this]; grind

theorem addAt_length (l : List Rat) (i : Nat) (x : Rat) : (addAt l i x).length = l.length := by
  simp [addAt]

theorem lsum_shiftPipe (l : List Rat) : lsum (shiftPipe l) = lsum l := by
  match l with
  | [] => simp [shiftPipe]
  | [x] => simp [shiftPipe]
  | x :: y :: rest =>
    simp only [shiftPipe, lsum, lsum_append]
    grind

theorem shiftPipe_length (l : List Rat) : (shiftPipe l).length = l.length := by
  match l with
  | [] => simp [shiftPipe]
  | [x] => simp [shiftPipe]
  | x :: y :: rest => simp [shiftPipe]

def allNonneg (l : List Rat) : Prop := ∀ x ∈ l, 0 ≤ x

theorem lsum_nonneg (l : List Rat) (h : allNonneg l) : 0 ≤ lsum l := by
  induction l with
  | nil => simp [lsum]
  | cons x xs ih =>
    simp only [lsum]
    have := h x (by simp)
    have := ih (fun y hy => h y (by simp [hy]))
    grind

theorem allNonneg_set_zero (l : List Rat) (h : allNonneg l) : allNonneg (l.set 0 0) := by
  cases l with
  | nil => simpa using h
  | cons x xs =>
    intro y hy
    simp only [List.set_cons_zero, List.mem_cons] at hy
    rcases hy with rfl | hy
    · exact Rat.le_refl
    · exact h y (by simp [hy])

theorem allNonneg_addAt (l : List Rat) (i : Nat) (x : Rat) (h : allNonneg l) (hx : 0 ≤ x) :
    allNonneg (addAt l i x) := by
  induction l generalizing i with
  | nil => simpa [addAt] using h
  | cons y ys ih =>
    cases i with
    | zero =>
      intro z hz
      simp only [addAt, List.modify_zero_cons, List.mem_cons] at hz
      rcases hz with rfl | hz
      · have := h y (by simp); grind
      · exact h z (by simp [hz])
    | succ i =>
      intro z hz
      simp only [addAt, List.modify_succ_cons, List.mem_cons] at hz
      rcases hz with rfl | hz
      · exact h z (by simp)
      · exact ih i (fun w hw => h w (by simp [hw])) z hz

theorem allNonneg_shiftPipe (l : List Rat) (h : allNonneg l) : allNonneg (shiftPipe l) := by
  match l with
  | [] => simpa [shiftPipe] using h
  | [x] => simpa [shiftPipe] using h
  | x :: y :: rest =>
    intro z hz
    simp only [shiftPipe, List.mem_cons, List.mem_append, List.mem_nil_iff, or_false] at hz
    have hx := h x (by simp)
    have hy := h y (by simp)
    rcases hz with rfl | hz | rfl
    · grind
    · exact h z (by simp [hz])
    · exact Rat.le_refl

theorem headD_nonneg (l : List Rat) (h : allNonneg l) : 0 ≤ l.headD 0 := by
  cases l with
  | nil => simp
  | cons x xs => simpa using h x (by simp)

theorem lmin_nonneg (l : List Rat) (h : allNonneg l) : 0 ≤ lmin l := by
  induction l with
  | nil => simp [lmin]
  | cons x xs ih =>
    cases xs with
    | nil => simpa [lmin] using h x (by simp)
    | cons y ys =>
      simp only [lmin]
      have := h x (by simp)
      have := ih (fun z hz => h z (by simp [hz]))
      grind

theorem lmin_le (l : List Rat) (x : Rat) (h : x ∈ l) : lmin l ≤ x := by
  induction l with
  | nil => simp at h
  | cons y ys ih =>
    cases ys with
    | nil => simp at h; subst h; simp [lmin]
    | cons z zs =>
      simp only [lmin]
      rcases List.mem_cons.mp h with rfl | h
      · grind
      · have := ih h; grind

/-! ### the shipping kernel (sim.py:961-1020) -/

/-- Units actually allocated to a successor: `min(on hand, backorders + new order)`. -/
def rts (oh : Rat) (e : EdgeSt) : Rat := min oh (e.bo + e.io)

structure EdgeNonneg (e : EdgeSt) : Prop where
  ispl : allNonneg e.ispl
  iopl : allNonneg e.iopl
  is_ : 0 ≤ e.is_
  oo : 0 ≤ e.oo
  idi : 0 ≤ e.idi
  oq : 0 ≤ e.oq
  rm : 0 ≤ e.rm
  io : 0 ≤ e.io
  os : 0 ≤ e.os
  bo : 0 ≤ e.bo
  odi : 0 ≤ e.odi

end Stockpyl.Sim

namespace Stockpyl.Sim
open Stockpyl

/-- What `shipOne` does, in one line per output: `rts = min(oh, bo+io)` units are allocated. -/
theorem shipOne_core (oh : Rat) (sp ext : Bool) (e : EdgeSt) (hoh : 0 ≤ oh) (hbo : 0 ≤ e.bo)
    (hio : 0 ≤ e.io) (hodi : 0 ≤ e.odi) :
    let r := shipOne oh sp ext e
    r.e.bo = e.bo + e.io - rts oh e ∧ r.oh = oh - rts oh e ∧
    r.e.os = (if sp then 0 else rts oh e + e.odi) ∧
    (ext = false → r.e.odi = (if sp then e.odi + rts oh e else 0)) ∧
    (ext = true → r.e.odi = e.odi) ∧
    0 ≤ rts oh e ∧ rts oh e ≤ oh ∧ rts oh e ≤ e.bo + e.io ∧
    r.dmfs = max 0 (r.e.os - e.bo) := by
  simp only [shipOne, rts]
  cases sp <;> cases ext <;> simp <;> grind

theorem shipOne_frame (oh : Rat) (sp ext : Bool) (e : EdgeSt) :
    let r := shipOne oh sp ext e
    r.e.ispl = e.ispl ∧ r.e.is_ = e.is_ ∧ r.e.oo = e.oo ∧ r.e.idi = e.idi ∧ r.e.oq = e.oq ∧
    r.e.rm = e.rm ∧ r.e.iopl = e.iopl ∧ r.e.io = e.io := by
  simp [shipOne]

def sumBO (l : List EdgeSt) : Rat := lsum (l.map (·.bo))
def sumIO (l : List EdgeSt) : Rat := lsum (l.map (·.io))
def sumOS (l : List EdgeSt) : Rat := lsum (l.map (·.os))
def sumODI (l : List EdgeSt) : Rat := lsum (l.map (·.odi))

theorem ship_arith (D' bo io oh : Rat) (hD : 0 ≤ D') (hoh : 0 ≤ oh) (hbo : 0 ≤ bo) (hio : 0 ≤ io) :
    (bo + io - min oh (bo + io)) + max 0 (D' - (oh - min oh (bo + io))) = max 0 (bo + io + D' - oh) ∧
    max 0 (oh - min oh (bo + io) - D') = max 0 (oh - (bo + io + D')) := by
  constructor <;> grind

theorem sumBO_nonneg (l : List EdgeSt) (h : ∀ e ∈ l, 0 ≤ e.bo) : 0 ≤ sumBO l := by
  apply lsum_nonneg
  intro x hx
  obtain ⟨e, he, rfl⟩ := List.mem_map.mp hx
  exact h e he

theorem sumIO_nonneg (l : List EdgeSt) (h : ∀ e ∈ l, 0 ≤ e.io) : 0 ≤ sumIO l := by
  apply lsum_nonneg
  intro x hx
  obtain ⟨e, he, rfl⟩ := List.mem_map.mp hx
  exact h e he

/-- The loop over successors: total backorders afterwards are exactly the unmet part of
(old backorders + new orders), the on-hand left is the unused part. -/
theorem shipAll_spec (oh : Rat) (l : List (Bool × Bool × EdgeSt)) (hoh : 0 ≤ oh)
    (hw : ∀ x ∈ l, 0 ≤ x.2.2.bo ∧ 0 ≤ x.2.2.io ∧ 0 ≤ x.2.2.odi) :
    let D := sumBO (l.map (·.2.2)) + sumIO (l.map (·.2.2))
    sumBO (shipAll oh l).1 = max 0 (D - oh) ∧ (shipAll oh l).2.1 = max 0 (oh - D) ∧
    (shipAll oh l).1.length = l.length := by
  induction l generalizing oh with
  | nil => simp [shipAll, sumBO, sumIO, lsum]; grind
  | cons x xs ih =>
    obtain ⟨sp, ext, e⟩ := x
    obtain ⟨h1, h2, h3⟩ := hw (sp, ext, e) (by simp)
    obtain ⟨c1, c2, _, _, _, c6, c7, c8, _⟩ := shipOne_core oh sp ext e hoh h1 h2 h3
    have hoh' : 0 ≤ (shipOne oh sp ext e).oh := by rw [c2]; grind
    obtain ⟨i1, i2, i3⟩ := ih (shipOne oh sp ext e).oh hoh' (fun y hy => hw y (by simp [hy]))
    have hA : 0 ≤ sumBO (xs.map (·.2.2)) := sumBO_nonneg _ (by
      intro e' he'; obtain ⟨y, hy, rfl⟩ := List.mem_map.mp he'; exact (hw y (by simp [hy])).1)
    have hB : 0 ≤ sumIO (xs.map (·.2.2)) := sumIO_nonneg _ (by
      intro e' he'; obtain ⟨y, hy, rfl⟩ := List.mem_map.mp he'; exact (hw y (by simp [hy])).2.1)
    have ar := ship_arith (sumBO (xs.map (·.2.2)) + sumIO (xs.map (·.2.2))) e.bo e.io oh
      (by grind) hoh h1 h2
    simp only [shipAll, List.map_cons, List.length_cons]
    refine ⟨?_, ?_, by omega⟩
    · have : sumBO ((shipOne oh sp ext e).e :: (shipAll (shipOne oh sp ext e).oh xs).1)
          = (shipOne oh sp ext e).e.bo + sumBO (shipAll (shipOne oh sp ext e).oh xs).1 := by
        simp [sumBO, lsum]
      rw [this, i1, c1, c2]
      have e1 : sumBO (e :: xs.map (·.2.2)) = e.bo + sumBO (xs.map (·.2.2)) := by simp [sumBO, lsum]
      have e2 : sumIO (e :: xs.map (·.2.2)) = e.io + sumIO (xs.map (·.2.2)) := by simp [sumIO, lsum]
      rw [e1, e2]
      simp only [rts]
      rw [ar.1]
      congr 1
      grind
    · rw [i2, c2]
      have e1 : sumBO (e :: xs.map (·.2.2)) = e.bo + sumBO (xs.map (·.2.2)) := by simp [sumBO, lsum]
      have e2 : sumIO (e :: xs.map (·.2.2)) = e.io + sumIO (xs.map (·.2.2)) := by simp [sumIO, lsum]
      rw [e1, e2]
      simp only [rts]
      rw [ar.2]
      congr 1
      grind

end Stockpyl.Sim
