import StockpylModel.Props.C03
/-!
Network-level projection of the simulator model onto one edge record: every node operation of
`Model/Sim.lean` acts on an edge record through an edge-local function, and only the two end-points of an
edge touch it. These lemmas lift the single-edge theorems of C01–C03 to whole networks.
-/
namespace Stockpyl.Sim
open Stockpyl

/-! ### frame lemmas for `modNode` / `modEdge` / `modEdges` -/

@[simp] theorem edge_modNode (st : State) (n : Nat) (f : NodeSt → NodeSt) (e : Nat) :
    (st.modNode n f).edge e = st.edge e := rfl

@[simp] theorem edges_modNode (st : State) (n : Nat) (f : NodeSt → NodeSt) :
    (st.modNode n f).edges = st.edges := rfl

@[simp] theorem edges_length_modEdge (st : State) (e : Nat) (f : EdgeSt → EdgeSt) :
    (st.modEdge e f).edges.length = st.edges.length := by simp [State.modEdge]

@[simp] theorem nodes_modEdge (st : State) (e : Nat) (f : EdgeSt → EdgeSt) :
    (st.modEdge e f).nodes = st.nodes := rfl

theorem edge_modEdge_ne (st : State) (e' e : Nat) (f : EdgeSt → EdgeSt) (h : e' ≠ e) :
    (st.modEdge e' f).edge e = st.edge e := by
  simp only [State.modEdge, State.edge, List.getD_eq_getElem?_getD, List.getElem?_modify]
  simp [h]

theorem edge_modEdge_self (st : State) (e : Nat) (f : EdgeSt → EdgeSt) (h : e < st.edges.length) :
    (st.modEdge e f).edge e = f (st.edge e) := by
  simp only [State.modEdge, State.edge, List.getD_eq_getElem?_getD, List.getElem?_modify]
  simp [List.getElem?_eq_getElem h]

@[simp] theorem edges_length_modEdges (st : State) (es : List Nat) (f : Nat → EdgeSt → EdgeSt) :
    (st.modEdges es f).edges.length = st.edges.length := by
  induction es generalizing st with
  | nil => rfl
  | cons x xs ih => simp only [State.modEdges, List.foldl_cons] at ih ⊢; rw [ih]; simp

@[simp] theorem nodes_modEdges (st : State) (es : List Nat) (f : Nat → EdgeSt → EdgeSt) :
    (st.modEdges es f).nodes = st.nodes := by
  induction es generalizing st with
  | nil => rfl
  | cons x xs ih => simp only [State.modEdges, List.foldl_cons] at ih ⊢; rw [ih]; rfl

theorem edge_modEdges_not_mem (st : State) (es : List Nat) (f : Nat → EdgeSt → EdgeSt) (e : Nat)
    (h : e ∉ es) : (st.modEdges es f).edge e = st.edge e := by
  induction es generalizing st with
  | nil => rfl
  | cons x xs ih =>
    simp only [State.modEdges, List.foldl_cons] at ih ⊢
    rw [ih _ (fun hm => h (by simp [hm]))]
    exact edge_modEdge_ne st x e _ (fun hx => h (by simp [hx]))

theorem edge_modEdges_mem (st : State) (es : List Nat) (f : Nat → EdgeSt → EdgeSt) (e : Nat)
    (hnd : es.Nodup) (h : e ∈ es) (hl : e < st.edges.length) :
    (st.modEdges es f).edge e = f e (st.edge e) := by
  induction es generalizing st with
  | nil => simp at h
  | cons x xs ih =>
    simp only [State.modEdges, List.foldl_cons] at ih ⊢
    have hnd' := List.nodup_cons.mp hnd
    by_cases hx : x = e
    · subst hx
      have := edge_modEdges_not_mem (st.modEdge x (f x)) xs f x hnd'.1
      simp only [State.modEdges] at this
      rw [this]
      exact edge_modEdge_self st x _ hl
    · have hm : e ∈ xs := by simpa [Ne.symm hx] using h
      rw [ih _ hnd'.2 hm (by simpa using hl)]
      rw [edge_modEdge_ne st x e _ hx]

/-- Edge record after `modEdges`, in one statement. -/
theorem edge_modEdges (st : State) (es : List Nat) (f : Nat → EdgeSt → EdgeSt) (e : Nat)
    (hnd : es.Nodup) (hl : e < st.edges.length) :
    (st.modEdges es f).edge e = if e ∈ es then f e (st.edge e) else st.edge e := by
  by_cases h : e ∈ es
  · simp only [h, if_true]; exact edge_modEdges_mem st es f e hnd h hl
  · simp only [h, if_false]; exact edge_modEdges_not_mem st es f e h

/-! ### well-formed networks -/

/-- The per-node edge lists are exactly the incidence lists of `net.edges`, without repetitions and
without self-loops; order quantities and capacities are non-negative. Stated for all `n` (for a position
outside the network `net.cfg n` has empty lists). -/
structure NetWF (net : Net) : Prop where
  inE_dst : ∀ n, ∀ e ∈ (net.cfg n).inE, (net.edge e).dst = some n ∧ e < net.edges.length
  outE_src : ∀ n, ∀ e ∈ (net.cfg n).outE, (net.edge e).src = some n ∧ e < net.edges.length
  dst_inE : ∀ e, e < net.edges.length → ∀ n, (net.edge e).dst = some n → e ∈ (net.cfg n).inE
  src_outE : ∀ e, e < net.edges.length → ∀ n, (net.edge e).src = some n → e ∈ (net.cfg n).outE
  inE_nodup : ∀ n, (net.cfg n).inE.Nodup
  outE_nodup : ∀ n, (net.cfg n).outE.Nodup
  no_loop : ∀ e n, (net.edge e).src = some n → (net.edge e).dst ≠ some n
  qty_nonneg : ∀ n ip, 0 ≤ capped ((net.cfg n).policy.qty ip) (net.cfg n).cap

/-- Sign conditions of an edge record that the shipping kernel relies on. -/
structure EdgeOK (e : EdgeSt) : Prop where
  bo : 0 ≤ e.bo
  odi : 0 ≤ e.odi
  io : 0 ≤ e.io
  iopl : allNonneg e.iopl

def StateOK (st : State) : Prop := ∀ e, e < st.edges.length → EdgeOK (st.edge e)

/-! ### what each node operation does to one edge record -/

theorem receiveOrders_edge (net : Net) (hwf : NetWF net) (n : Nat) (st : State) (e : Nat) (hl : e < st.edges.length) :
    (receiveOrders net n st).edge e =
      if e ∈ (net.cfg n).outE then recvOrderEdge (st.edge e) else st.edge e := by
  simp only [receiveOrders, edge_modNode]
  exact edge_modEdges st _ _ e (hwf.outE_nodup n) hl

@[simp] theorem receiveOrders_len (net : Net) (n : Nat) (st : State) :
    (receiveOrders net n st).edges.length = st.edges.length := by
  simp [receiveOrders]

theorem placeOrders_edge (net : Net) (hwf : NetWF net) (n : Nat) (st : State) (e : Nat) (hl : e < st.edges.length) :
    (placeOrders net n st).edge e =
      if isDisr net st n .OP then st.edge e else
      if e ∈ (net.cfg n).inE then
        placeOrderEdge (net.cfg n).olt (net.cfg n).slt ((net.edge e).src.isNone) (orderQty net st n) (st.edge e)
      else st.edge e := by
  simp only [placeOrders]
  split
  · rfl
  · simp only [edge_modNode]
    exact edge_modEdges st _ _ e (hwf.inE_nodup n) hl

@[simp] theorem placeOrders_len (net : Net) (n : Nat) (st : State) :
    (placeOrders net n st).edges.length = st.edges.length := by
  simp only [placeOrders]; split <;> simp

theorem receiveShipments_edge (net : Net) (hwf : NetWF net) (n : Nat) (st : State) (e : Nat) (hl : e < st.edges.length) :
    (receiveShipments net n st).edge e =
      if e ∈ (net.cfg n).inE then recvShipEdge (isDisr net st n .RP) (st.edge e) else st.edge e := by
  simp only [receiveShipments]
  exact edge_modEdges st _ _ e (hwf.inE_nodup n) hl

@[simp] theorem receiveShipments_len (net : Net) (n : Nat) (st : State) :
    (receiveShipments net n st).edges.length = st.edges.length := by
  simp [receiveShipments]

theorem rmToFg_edge (net : Net) (hwf : NetWF net) (n : Nat) (st : State) (e : Nat) (hl : e < st.edges.length) :
    (rmToFg net n st).edge e =
      if e ∈ (net.cfg n).inE then { st.edge e with rm := (st.edge e).rm - producible net st n } else st.edge e := by
  simp only [rmToFg, edge_modNode]
  exact edge_modEdges st _ _ e (hwf.inE_nodup n) hl

@[simp] theorem rmToFg_len (net : Net) (n : Nat) (st : State) :
    (rmToFg net n st).edges.length = st.edges.length := by
  simp [rmToFg]

theorem propagate_edge (net : Net) (hwf : NetWF net) (n : Nat) (st : State) (e : Nat) (hl : e < st.edges.length) :
    (propagate net n st).edge e =
      if e ∈ (net.cfg n).outE then
        (match (net.edge e).dst with
         | some m => { st.edge e with ispl := addAt (st.edge e).ispl (net.cfg m).slt (st.edge e).os }
         | none => st.edge e)
      else st.edge e := by
  simp only [propagate]
  exact edge_modEdges st _ _ e (hwf.outE_nodup n) hl

@[simp] theorem propagate_len (net : Net) (n : Nat) (st : State) :
    (propagate net n st).edges.length = st.edges.length := by
  simp [propagate]

@[simp] theorem fillRate_edge (n : Nat) (st : State) (e : Nat) : (fillRate n st).edge e = st.edge e := rfl
@[simp] theorem fillRate_len (n : Nat) (st : State) : (fillRate n st).edges.length = st.edges.length := rfl

/-! ### the shipping loop -/

theorem shipLoop_spec (net : Net) (st : State) (es : List Nat) :
    ∀ (s : State) (oh dm io : Rat), es.Nodup → 0 ≤ oh →
      (∀ e ∈ es, e < s.edges.length ∧ EdgeOK (s.edge e)) →
      (shipLoop net st es s oh dm io).1.edges.length = s.edges.length ∧
      (shipLoop net st es s oh dm io).1.nodes = s.nodes ∧
      (∀ e, e ∉ es → (shipLoop net st es s oh dm io).1.edge e = s.edge e) ∧
      (∀ e ∈ es, ∃ oh' sp, 0 ≤ oh' ∧
        (shipLoop net st es s oh dm io).1.edge e = (shipOne oh' sp ((net.edge e).dst.isNone) (s.edge e)).e) := by
  induction es with
  | nil => intro s oh dm io _ _ _; simp [shipLoop]
  | cons x xs ih =>
    intro s oh dm io hnd hoh hok
    have hnd' := List.nodup_cons.mp hnd
    obtain ⟨hxl, hxok⟩ := hok x (by simp)
    -- the flags used for x
    generalize hflags : (match (net.edge x).dst with
      | some m => (isDisr net st m .SP, false)
      | none => (false, true)) = flags
    have hext : flags.2 = (net.edge x).dst.isNone := by
      rw [← hflags]; cases (net.edge x).dst <;> rfl
    have hnn := shipOne_nonneg oh flags.1 flags.2 (s.edge x) hoh hxok.bo hxok.io hxok.odi
    simp only at hnn
    have hstep : shipLoop net st (x :: xs) s oh dm io =
        shipLoop net st xs (s.modEdge x fun _ => (shipOne oh flags.1 flags.2 (s.edge x)).e)
          (shipOne oh flags.1 flags.2 (s.edge x)).oh (dm + (shipOne oh flags.1 flags.2 (s.edge x)).dmfs)
          (io + (s.edge x).io) := by
      simp only [shipLoop]
      rw [← hflags]
      cases (net.edge x).dst <;> rfl
    rw [hstep]
    have hok' : ∀ e ∈ xs, e < (s.modEdge x fun _ => (shipOne oh flags.1 flags.2 (s.edge x)).e).edges.length ∧
        EdgeOK ((s.modEdge x fun _ => (shipOne oh flags.1 flags.2 (s.edge x)).e).edge e) := by
      intro e he
      have hne : x ≠ e := fun h => hnd'.1 (h ▸ he)
      obtain ⟨h1, h2⟩ := hok e (by simp [he])
      refine ⟨by simpa using h1, ?_⟩
      rw [edge_modEdge_ne _ _ _ _ hne]; exact h2
    obtain ⟨i1, i2, i3, i4⟩ := ih _ (shipOne oh flags.1 flags.2 (s.edge x)).oh
      (dm + (shipOne oh flags.1 flags.2 (s.edge x)).dmfs) (io + (s.edge x).io) hnd'.2 hnn.2.2.2.1 hok'
    refine ⟨by rw [i1]; simp, by rw [i2]; rfl, ?_, ?_⟩
    · intro e he
      have hne : x ≠ e := fun h => he (by simp [h])
      rw [i3 e (fun hm => he (by simp [hm]))]
      exact edge_modEdge_ne _ _ _ _ hne
    · intro e he
      by_cases hxe : x = e
      · subst hxe
        refine ⟨oh, flags.1, hoh, ?_⟩
        rw [i3 x hnd'.1, edge_modEdge_self _ _ _ hxl, hext]
      · have hm : e ∈ xs := by simpa [Ne.symm hxe] using he
        obtain ⟨oh', sp, h1, h2⟩ := i4 e hm
        refine ⟨oh', sp, h1, ?_⟩
        rw [h2, edge_modEdge_ne _ _ _ _ hxe]

/-! ### one node of the shipment phase, seen from one edge -/

def consumeEdge (m : Rat) (ed : EdgeSt) : EdgeSt := { ed with rm := ed.rm - m }

def propEdge (net : Net) (e : Nat) (ed : EdgeSt) : EdgeSt :=
  match (net.edge e).dst with
  | some m => { ed with ispl := addAt ed.ispl (net.cfg m).slt ed.os }
  | none => ed

theorem producible_nonneg (net : Net) (st : State) (n : Nat) : 0 ≤ producible net st n := by
  apply lmin_nonneg
  intro x hx
  obtain ⟨e, _, rfl⟩ := List.mem_map.mp hx
  split <;> grind

theorem not_in_both (net : Net) (hwf : NetWF net) (n e : Nat) (hi : e ∈ (net.cfg n).inE)
    (ho : e ∈ (net.cfg n).outE) : False :=
  hwf.no_loop e n (hwf.outE_src n e ho).1 (hwf.inE_dst n e hi).1

theorem nodeShip_spec (net : Net) (hwf : NetWF net) (n : Nat) (st : State)
    (hlen : st.edges.length = net.edges.length) (hok : StateOK st) :
    (nodeShip net n st).edges.length = st.edges.length ∧
    (∀ e, e < st.edges.length → e ∉ (net.cfg n).inE → e ∉ (net.cfg n).outE →
        (nodeShip net n st).edge e = st.edge e) ∧
    (∀ e, e ∈ (net.cfg n).inE →
        (nodeShip net n st).edge e =
          consumeEdge (producible net (receiveShipments net n st) n) (recvShipEdge (isDisr net st n .RP) (st.edge e))) ∧
    (∀ e, e ∈ (net.cfg n).outE → ∃ oh sp, 0 ≤ oh ∧
        (nodeShip net n st).edge e = propEdge net e (shipOne oh sp ((net.edge e).dst.isNone) (st.edge e)).e) := by
  -- the intermediate states
  have l1 : (receiveShipments net n st).edges.length = st.edges.length := by simp
  have l2 : (rmToFg net n (receiveShipments net n st)).edges.length = st.edges.length := by simp
  -- edges of outE n are untouched by the first two operations
  have pre : ∀ e, e < st.edges.length → e ∉ (net.cfg n).inE →
      (rmToFg net n (receiveShipments net n st)).edge e = st.edge e := by
    intro e hl hni
    rw [rmToFg_edge net hwf n _ e (by simpa using hl), if_neg hni,
        receiveShipments_edge net hwf n st e hl, if_neg hni]
  have hokOut : ∀ e ∈ (net.cfg n).outE,
      e < (rmToFg net n (receiveShipments net n st)).edges.length ∧
      EdgeOK ((rmToFg net n (receiveShipments net n st)).edge e) := by
    intro e he
    have hl : e < st.edges.length := by rw [hlen]; exact (hwf.outE_src n e he).2
    have hni : e ∉ (net.cfg n).inE := fun hi => not_in_both net hwf n e hi he
    refine ⟨by simpa using hl, ?_⟩
    rw [pre e hl hni]; exact hok e hl
  have hoh0 : 0 ≤ pos (st.node n).il + ((rmToFg net n (receiveShipments net n st)).node n).newFG := by
    have h1 : 0 ≤ pos (st.node n).il := by unfold pos; grind
    have h2 : 0 ≤ ((rmToFg net n (receiveShipments net n st)).node n).newFG := by
      simp only [rmToFg, State.modNode, State.node, List.getD_eq_getElem?_getD, List.getElem?_modify, nodes_modEdges]
      cases hh : (receiveShipments net n st).nodes[n]? with
      | none => simp
      | some v => simp; exact producible_nonneg _ _ _
    grind
  obtain ⟨s1, s2, s3, s4⟩ := shipLoop_spec net (rmToFg net n (receiveShipments net n st)) (net.cfg n).outE
    (rmToFg net n (receiveShipments net n st))
    (pos (st.node n).il + ((rmToFg net n (receiveShipments net n st)).node n).newFG) 0 0
    (hwf.outE_nodup n) hoh0 hokOut
  -- unfold nodeShip down to the loop result
  have hns : ∀ e, e < st.edges.length → (nodeShip net n st).edge e =
      if e ∈ (net.cfg n).outE then
        propEdge net e ((shipLoop net (rmToFg net n (receiveShipments net n st)) (net.cfg n).outE
          (rmToFg net n (receiveShipments net n st))
          (pos (st.node n).il + ((rmToFg net n (receiveShipments net n st)).node n).newFG) 0 0).1.edge e)
      else (shipLoop net (rmToFg net n (receiveShipments net n st)) (net.cfg n).outE
          (rmToFg net n (receiveShipments net n st))
          (pos (st.node n).il + ((rmToFg net n (receiveShipments net n st)).node n).newFG) 0 0).1.edge e := by
    intro e hl
    simp only [nodeShip, processOutbound]
    rw [propagate_edge net hwf n _ e (by simp only [fillRate_len, State.modNode]; rw [s1, l2]; exact hl)]
    simp only [fillRate_edge, edge_modNode, propEdge]
  have hnl : (nodeShip net n st).edges.length = st.edges.length := by
    simp only [nodeShip, processOutbound, propagate_len, fillRate_len, State.modNode]
    rw [s1, l2]
  refine ⟨hnl, ?_, ?_, ?_⟩
  · intro e hl hni hno
    rw [hns e hl, if_neg hno, s3 e hno, pre e hl hni]
  · intro e hi
    have hl : e < st.edges.length := by rw [hlen]; exact (hwf.inE_dst n e hi).2
    have hno : e ∉ (net.cfg n).outE := fun ho => not_in_both net hwf n e hi ho
    rw [hns e hl, if_neg hno, s3 e hno,
        rmToFg_edge net hwf n _ e (by simpa using hl), if_pos hi,
        receiveShipments_edge net hwf n st e hl, if_pos hi]
    rfl
  · intro e ho
    have hl : e < st.edges.length := by rw [hlen]; exact (hwf.outE_src n e ho).2
    have hni : e ∉ (net.cfg n).inE := fun hi => not_in_both net hwf n e hi ho
    obtain ⟨oh, sp, h1, h2⟩ := s4 e ho
    refine ⟨oh, sp, h1, ?_⟩
    rw [hns e hl, if_pos ho, h2, pre e hl hni]

/-! ### one node of the order phase, seen from one edge -/

theorem addAt_zero (l : List Rat) (i : Nat) : addAt l i 0 = l := by
  induction l generalizing i with
  | nil => simp [addAt]
  | cons x xs ih =>
    cases i with
    | zero => simp only [addAt, List.modify_zero_cons]; congr 1; grind
    | succ i => simp only [addAt, List.modify_succ_cons]; congr 1; exact ih i

theorem placeOrderEdge_zero (olt slt : Nat) (ext : Bool) (ed : EdgeSt) :
    placeOrderEdge olt slt ext 0 ed = ed := by
  cases ed
  cases ext <;> simp [placeOrderEdge, addAt_zero, Rat.add_zero]

def orderOp (net : Net) (n : Nat) (s : State) : State := placeOrders net n (receiveOrders net n s)

theorem orderOp_spec (net : Net) (hwf : NetWF net) (n : Nat) (st : State)
    (hlen : st.edges.length = net.edges.length) :
    (orderOp net n st).edges.length = st.edges.length ∧
    (∀ e, e < st.edges.length → e ∉ (net.cfg n).inE → e ∉ (net.cfg n).outE →
        (orderOp net n st).edge e = st.edge e) ∧
    (∀ e, e ∈ (net.cfg n).outE → (orderOp net n st).edge e = recvOrderEdge (st.edge e)) ∧
    (∀ e, e ∈ (net.cfg n).inE → ∃ q, 0 ≤ q ∧
        (orderOp net n st).edge e =
          placeOrderEdge (net.cfg n).olt (net.cfg n).slt ((net.edge e).src.isNone) q (st.edge e)) := by
  refine ⟨by simp [orderOp], ?_, ?_, ?_⟩
  · intro e hl hni hno
    simp only [orderOp]
    rw [placeOrders_edge net hwf n _ e (by simpa using hl)]
    have : (receiveOrders net n st).edge e = st.edge e := by
      rw [receiveOrders_edge net hwf n st e hl, if_neg hno]
    split
    · exact this
    · first | exact this | (rw [if_neg hni]; exact this)
  · intro e ho
    have hl : e < st.edges.length := by rw [hlen]; exact (hwf.outE_src n e ho).2
    have hni : e ∉ (net.cfg n).inE := fun hi => not_in_both net hwf n e hi ho
    simp only [orderOp]
    rw [placeOrders_edge net hwf n _ e (by simpa using hl)]
    have : (receiveOrders net n st).edge e = recvOrderEdge (st.edge e) := by
      rw [receiveOrders_edge net hwf n st e hl, if_pos ho]
    split
    · exact this
    · first | exact this | (rw [if_neg hni]; exact this)
  · intro e hi
    have hl : e < st.edges.length := by rw [hlen]; exact (hwf.inE_dst n e hi).2
    have hno : e ∉ (net.cfg n).outE := fun ho => not_in_both net hwf n e hi ho
    have hsame : (receiveOrders net n st).edge e = st.edge e := by
      rw [receiveOrders_edge net hwf n st e hl, if_neg hno]
    simp only [orderOp]
    rw [placeOrders_edge net hwf n _ e (by simpa using hl)]
    split
    · exact ⟨0, by grind, by rw [placeOrderEdge_zero, hsame]⟩
    · first | rw [if_pos hi, hsame] | rw [hsame]
      exact ⟨_, hwf.qty_nonneg n _, rfl⟩

/-! ### the sign conditions survive every edge-local step -/

theorem edgeOK_recvOrder (ed : EdgeSt) (h : EdgeOK ed) : EdgeOK (recvOrderEdge ed) :=
  ⟨h.bo, h.odi, by simp only [recvOrderEdge]; exact headD_nonneg _ h.iopl,
   by simp only [recvOrderEdge]; exact allNonneg_set_zero _ h.iopl⟩

theorem edgeOK_place (olt slt : Nat) (ext : Bool) (q : Rat) (hq : 0 ≤ q) (ed : EdgeSt) (h : EdgeOK ed) :
    EdgeOK (placeOrderEdge olt slt ext q ed) := by
  cases ext
  · exact ⟨h.bo, h.odi, h.io, by simp only [placeOrderEdge]; exact allNonneg_addAt _ _ _ h.iopl hq⟩
  · exact ⟨h.bo, h.odi, h.io, h.iopl⟩

theorem edgeOK_ship (oh : Rat) (sp ext : Bool) (hoh : 0 ≤ oh) (ed : EdgeSt) (h : EdgeOK ed) :
    EdgeOK (shipOne oh sp ext ed).e := by
  have nn := shipOne_nonneg oh sp ext ed hoh h.bo h.io h.odi
  have fr := shipOne_frame oh sp ext ed
  simp only at nn fr
  exact ⟨nn.1, nn.2.2.1, by rw [fr.2.2.2.2.2.2.2]; exact h.io, by rw [fr.2.2.2.2.2.2.1]; exact h.iopl⟩

theorem edgeOK_prop (net : Net) (e : Nat) (ed : EdgeSt) (h : EdgeOK ed) : EdgeOK (propEdge net e ed) := by
  unfold propEdge; split
  · exact ⟨h.bo, h.odi, h.io, h.iopl⟩
  · exact h

theorem edgeOK_recvShip (rp : Bool) (ed : EdgeSt) (h : EdgeOK ed) : EdgeOK (recvShipEdge rp ed) := by
  cases rp <;> exact ⟨h.bo, h.odi, h.io, h.iopl⟩

theorem edgeOK_consume (m : Rat) (ed : EdgeSt) (h : EdgeOK ed) : EdgeOK (consumeEdge m ed) :=
  ⟨h.bo, h.odi, h.io, h.iopl⟩

theorem edgeOK_next (tp : Bool) (ed : EdgeSt) (h : EdgeOK ed) : EdgeOK (nextEdge tp ed) := by
  refine ⟨h.bo, h.odi, by simp [nextEdge], ?_⟩
  simp only [nextEdge]
  intro x hx
  rcases List.mem_append.mp hx with hx | hx
  · exact h.iopl x (List.mem_of_mem_tail hx)
  · split at hx
    · simp at hx
    · simp at hx; subst hx; grind

theorem orderOp_ok (net : Net) (hwf : NetWF net) (n : Nat) (st : State)
    (hlen : st.edges.length = net.edges.length) (hok : StateOK st) : StateOK (orderOp net n st) := by
  obtain ⟨h1, h2, h3, h4⟩ := orderOp_spec net hwf n st hlen
  intro e he
  rw [h1] at he
  by_cases ho : e ∈ (net.cfg n).outE
  · rw [h3 e ho]; exact edgeOK_recvOrder _ (hok e he)
  · by_cases hi : e ∈ (net.cfg n).inE
    · obtain ⟨q, hq, hh⟩ := h4 e hi
      rw [hh]; exact edgeOK_place _ _ _ q hq _ (hok e he)
    · rw [h2 e he hi ho]; exact hok e he

theorem nodeShip_ok (net : Net) (hwf : NetWF net) (n : Nat) (st : State)
    (hlen : st.edges.length = net.edges.length) (hok : StateOK st) : StateOK (nodeShip net n st) := by
  obtain ⟨h1, h2, h3, h4⟩ := nodeShip_spec net hwf n st hlen hok
  intro e he
  rw [h1] at he
  by_cases ho : e ∈ (net.cfg n).outE
  · obtain ⟨oh, sp, hoh, hh⟩ := h4 e ho
    rw [hh]; exact edgeOK_prop _ _ _ (edgeOK_ship oh sp _ hoh _ (hok e he))
  · by_cases hi : e ∈ (net.cfg n).inE
    · rw [h3 e hi]; exact edgeOK_consume _ _ (edgeOK_recvShip _ _ (hok e he))
    · rw [h2 e he hi ho]; exact hok e he

/-! ### a pass over a visiting sequence, seen from one edge -/

section passes
variable (op : Nat → State → State) (e : Nat) (P : State → Prop)
variable (hP : ∀ n s, P s → P (op n s))
include hP

theorem pass_inv : ∀ (l : List Nat) (s : State), P s → P (l.foldl (fun s n => op n s) s) := by
  intro l
  induction l with
  | nil => intro s h; exact h
  | cons x xs ih => intro s h; exact ih _ (hP x s h)

/-- Nodes that do not touch the edge leave its record alone. -/
theorem pass_none (f g : Nat)
    (hother : ∀ n s, P s → n ≠ f → n ≠ g → (op n s).edge e = s.edge e) :
    ∀ (l : List Nat) (s : State), P s → f ∉ l → g ∉ l →
      (l.foldl (fun s n => op n s) s).edge e = s.edge e := by
  intro l
  induction l with
  | nil => intro s _ _ _; rfl
  | cons x xs ih =>
    intro s h hf hg
    simp only [List.foldl_cons]
    rw [ih _ (hP x s h) (fun hm => hf (by simp [hm])) (fun hm => hg (by simp [hm]))]
    exact hother x s h (fun hx => hf (by simp [hx])) (fun hx => hg (by simp [hx]))

/-- Exactly one visit by `g` (and none by `f`): the record undergoes `g`'s action. -/
theorem pass_one (f g : Nat) (R : EdgeSt → EdgeSt → Prop)
    (hother : ∀ n s, P s → n ≠ f → n ≠ g → (op n s).edge e = s.edge e)
    (hg : ∀ s, P s → R (s.edge e) ((op g s).edge e)) :
    ∀ (l : List Nat) (s : State), P s → l.Nodup → f ∉ l → g ∈ l →
      R (s.edge e) ((l.foldl (fun s n => op n s) s).edge e) := by
  intro l
  induction l with
  | nil => intro s _ _ _ hg'; simp at hg'
  | cons x xs ih =>
    intro s h hnd hf hgm
    have hnd' := List.nodup_cons.mp hnd
    simp only [List.foldl_cons]
    by_cases hx : x = g
    · subst hx
      rw [pass_none op e P hP f x hother xs _ (hP x s h) (fun hm => hf (by simp [hm])) hnd'.1]
      exact hg s h
    · have hm : g ∈ xs := by
        rcases List.mem_cons.mp hgm with h' | h'
        · exact absurd h'.symm hx
        · exact h'
      have := ih _ (hP x s h) hnd'.2 (fun hm' => hf (by simp [hm'])) hm
      rw [hother x s h (fun hx' => hf (by simp [hx'])) hx] at this
      exact this

/-- One visit by `f` followed (later in the sequence) by one visit by `g`. -/
theorem pass_two (f g : Nat) (hfg : f ≠ g) (RF RG : EdgeSt → EdgeSt → Prop)
    (hother : ∀ n s, P s → n ≠ f → n ≠ g → (op n s).edge e = s.edge e)
    (hf : ∀ s, P s → RF (s.edge e) ((op f s).edge e))
    (hg : ∀ s, P s → RG (s.edge e) ((op g s).edge e)) :
    ∀ (l : List Nat) (s : State), P s → l.Nodup → f ∈ l → g ∈ l → l.idxOf f < l.idxOf g →
      ∃ mid, RF (s.edge e) mid ∧ RG mid ((l.foldl (fun s n => op n s) s).edge e) := by
  intro l
  induction l with
  | nil => intro s _ _ hf' _ _; simp at hf'
  | cons x xs ih =>
    intro s h hnd hfm hgm hidx
    have hnd' := List.nodup_cons.mp hnd
    simp only [List.foldl_cons]
    by_cases hxf : x = f
    · subst hxf
      have hgx : g ∈ xs := by
        rcases List.mem_cons.mp hgm with h' | h'
        · exact absurd h'.symm hfg
        · exact h'
      refine ⟨(op x s).edge e, hf s h, ?_⟩
      -- in the rest only g touches the edge; swap roles: "f" of pass_one is x (absent)
      exact pass_one op e P hP x g RG hother hg xs _ (hP x s h) hnd'.2 hnd'.1 hgx
    · by_cases hxg : x = g
      · subst hxg
        simp [List.idxOf_cons] at hidx
      · have hfx : f ∈ xs := by
          rcases List.mem_cons.mp hfm with h' | h'
          · exact absurd h'.symm hxf
          · exact h'
        have hgx : g ∈ xs := by
          rcases List.mem_cons.mp hgm with h' | h'
          · exact absurd h'.symm hxg
          · exact h'
        have hidx' : xs.idxOf f < xs.idxOf g := by
          have b1 : (x == f) = false := by simpa using hxf
          have b2 : (x == g) = false := by simpa using hxg
          simp only [List.idxOf_cons, b1, b2] at hidx
          simpa using hidx
        obtain ⟨mid, m1, m2⟩ := ih _ (hP x s h) hnd'.2 hfx hgx hidx'
        rw [hother x s h hxf hxg] at m1
        exact ⟨mid, m1, m2⟩

end passes

section passesGen
variable {α : Type} (op : Nat → State → State) (π : State → α) (P : State → Prop)
variable (hP : ∀ n s, P s → P (op n s))
include hP

theorem passG_inv : ∀ (l : List Nat) (s : State), P s → P (l.foldl (fun s n => op n s) s) := by
  intro l
  induction l with
  | nil => intro s h; exact h
  | cons x xs ih => intro s h; exact ih _ (hP x s h)

/-- Nodes that do not touch the edge leave its record alone. -/
theorem passG_none (f g : Nat)
    (hother : ∀ n s, P s → n ≠ f → n ≠ g → π (op n s) = π s) :
    ∀ (l : List Nat) (s : State), P s → f ∉ l → g ∉ l →
      π (l.foldl (fun s n => op n s) s) = π s := by
  intro l
  induction l with
  | nil => intro s _ _ _; rfl
  | cons x xs ih =>
    intro s h hf hg
    simp only [List.foldl_cons]
    rw [ih _ (hP x s h) (fun hm => hf (by simp [hm])) (fun hm => hg (by simp [hm]))]
    exact hother x s h (fun hx => hf (by simp [hx])) (fun hx => hg (by simp [hx]))

/-- Exactly one visit by `g` (and none by `f`): the record undergoes `g`'s action. -/
theorem passG_one (f g : Nat) (R : α → α → Prop)
    (hother : ∀ n s, P s → n ≠ f → n ≠ g → π (op n s) = π s)
    (hg : ∀ s, P s → R (π s) (π (op g s))) :
    ∀ (l : List Nat) (s : State), P s → l.Nodup → f ∉ l → g ∈ l →
      R (π s) (π (l.foldl (fun s n => op n s) s)) := by
  intro l
  induction l with
  | nil => intro s _ _ _ hg'; simp at hg'
  | cons x xs ih =>
    intro s h hnd hf hgm
    have hnd' := List.nodup_cons.mp hnd
    simp only [List.foldl_cons]
    by_cases hx : x = g
    · subst hx
      rw [passG_none op π P hP f x hother xs _ (hP x s h) (fun hm => hf (by simp [hm])) hnd'.1]
      exact hg s h
    · have hm : g ∈ xs := by
        rcases List.mem_cons.mp hgm with h' | h'
        · exact absurd h'.symm hx
        · exact h'
      have := ih _ (hP x s h) hnd'.2 (fun hm' => hf (by simp [hm'])) hm
      rw [hother x s h (fun hx' => hf (by simp [hx'])) hx] at this
      exact this

/-- One visit by `f` followed (later in the sequence) by one visit by `g`. -/
theorem passG_two (f g : Nat) (hfg : f ≠ g) (RF RG : α → α → Prop)
    (hother : ∀ n s, P s → n ≠ f → n ≠ g → π (op n s) = π s)
    (hf : ∀ s, P s → RF (π s) (π (op f s)))
    (hg : ∀ s, P s → RG (π s) (π (op g s))) :
    ∀ (l : List Nat) (s : State), P s → l.Nodup → f ∈ l → g ∈ l → l.idxOf f < l.idxOf g →
      ∃ mid, RF (π s) mid ∧ RG mid (π (l.foldl (fun s n => op n s) s)) := by
  intro l
  induction l with
  | nil => intro s _ _ hf' _ _; simp at hf'
  | cons x xs ih =>
    intro s h hnd hfm hgm hidx
    have hnd' := List.nodup_cons.mp hnd
    simp only [List.foldl_cons]
    by_cases hxf : x = f
    · subst hxf
      have hgx : g ∈ xs := by
        rcases List.mem_cons.mp hgm with h' | h'
        · exact absurd h'.symm hfg
        · exact h'
      refine ⟨π (op x s), hf s h, ?_⟩
      -- in the rest only g touches the edge; swap roles: "f" of pass_one is x (absent)
      exact passG_one op π P hP x g RG hother hg xs _ (hP x s h) hnd'.2 hnd'.1 hgx
    · by_cases hxg : x = g
      · subst hxg
        simp [List.idxOf_cons] at hidx
      · have hfx : f ∈ xs := by
          rcases List.mem_cons.mp hfm with h' | h'
          · exact absurd h'.symm hxf
          · exact h'
        have hgx : g ∈ xs := by
          rcases List.mem_cons.mp hgm with h' | h'
          · exact absurd h'.symm hxg
          · exact h'
        have hidx' : xs.idxOf f < xs.idxOf g := by
          have b1 : (x == f) = false := by simpa using hxf
          have b2 : (x == g) = false := by simpa using hxg
          simp only [List.idxOf_cons, b1, b2] at hidx
          simpa using hidx
        obtain ⟨mid, m1, m2⟩ := ih _ (hP x s h) hnd'.2 hfx hgx hidx'
        rw [hother x s h hxf hxg] at m1
        exact ⟨mid, m1, m2⟩

end passesGen


/-! ### exogenous inputs, next-period initialisation, costs -/

theorem stateOK_modEdge (st : State) (x : Nat) (f : EdgeSt → EdgeSt)
    (hf : ∀ ed, EdgeOK ed → EdgeOK (f ed)) (hok : StateOK st) : StateOK (st.modEdge x f) := by
  intro e he
  have he' : e < st.edges.length := by simpa using he
  by_cases hx : x = e
  · subst hx; rw [edge_modEdge_self st x f he']; exact hf _ (hok x he')
  · rw [edge_modEdge_ne st x e f hx]; exact hok e he'

theorem stateOK_modEdges (st : State) (es : List Nat) (f : Nat → EdgeSt → EdgeSt)
    (hf : ∀ x ed, EdgeOK ed → EdgeOK (f x ed)) (hok : StateOK st) : StateOK (st.modEdges es f) := by
  induction es generalizing st with
  | nil => exact hok
  | cons x xs ih =>
    simp only [State.modEdges, List.foldl_cons] at ih ⊢
    exact ih _ (stateOK_modEdge st x (f x) (hf x) hok)

def tpFlag (net : Net) (st : State) (e : Nat) : Bool :=
  match (net.edge e).dst with
  | some n => isDisr net st n .TP
  | none => false

theorem initNext_edge (net : Net) (st : State) (e : Nat) (hlen : st.edges.length = net.edges.length)
    (he : e < st.edges.length) :
    (initNext net st).edge e = nextEdge (tpFlag net st e) (st.edge e) := by
  have he' : e < net.edges.length := hlen ▸ he
  have hz : (st.edges.zip net.edges)[e]? = some (st.edges[e], net.edges[e]) := by
    rw [List.getElem?_zip_eq_some]
    exact ⟨List.getElem?_eq_getElem he, List.getElem?_eq_getElem he'⟩
  simp only [initNext, State.edge, Net.edge, tpFlag, List.getD_eq_getElem?_getD, List.getElem?_map, hz,
    List.getElem?_eq_getElem he, List.getElem?_eq_getElem he', Option.map_some, Option.getD_some]
  rfl

@[simp] theorem initNext_len (net : Net) (st : State) (hlen : st.edges.length = net.edges.length) :
    (initNext net st).edges.length = st.edges.length := by
  simp [initNext, hlen]

@[simp] theorem costs_edge (net : Net) (st : State) (e : Nat) : (costs net st).edge e = st.edge e := rfl
@[simp] theorem costs_edges (net : Net) (st : State) : (costs net st).edges = st.edges := rfl

/-- External demands are non-negative. -/
def ExoOK (exo : List Exo) : Prop := ∀ n, 0 ≤ (exo.getD n {}).demand

theorem setExo_spec (net : Net) (exo : List Exo) (st : State) (hexo : ExoOK exo) (hok : StateOK st) :
    (setExo net exo st).edges.length = st.edges.length ∧ StateOK (setExo net exo st) ∧
    (∀ e, (net.edge e).dst ≠ none → (setExo net exo st).edge e = st.edge e) := by
  simp only [setExo]
  generalize hs1 : ({ st with nodes := (st.nodes.zip exo).map fun (s, x) => { s with disrupted := x.disrupted } } : State) = st1
  have h1 : st1.edges.length = st.edges.length := by rw [← hs1]
  have h2 : StateOK st1 := by rw [← hs1]; exact hok
  have h3 : ∀ e, st1.edge e = st.edge e := by intro e; rw [← hs1]; rfl
  have key : ∀ (l : List Nat) (s : State), s.edges.length = st.edges.length → StateOK s →
      (∀ e, (net.edge e).dst ≠ none → s.edge e = st.edge e) →
      let r := l.foldl (fun s n =>
        s.modEdges ((net.cfg n).outE.filter fun e => (net.edge e).dst.isNone) fun _ ed =>
          { ed with iopl := ed.iopl.set 0 ((exo.getD n {}).demand) }) s
      r.edges.length = st.edges.length ∧ StateOK r ∧ (∀ e, (net.edge e).dst ≠ none → r.edge e = st.edge e) := by
    intro l
    induction l with
    | nil => intro s a b c; exact ⟨a, b, c⟩
    | cons x xs ih =>
      intro s a b c
      simp only [List.foldl_cons]
      apply ih
      · simp [a]
      · apply stateOK_modEdges _ _ _ _ b
        intro _ ed hed
        refine ⟨hed.bo, hed.odi, hed.io, ?_⟩
        intro y hy
        simp only at hy
        rcases List.mem_or_eq_of_mem_set hy with hy | hy
        · exact hed.iopl y hy
        · subst hy; exact hexo x
      · intro e he
        rw [edge_modEdges_not_mem _ _ _ e (by
          intro hm
          have := (List.mem_filter.mp hm).2
          cases hd : (net.edge e).dst with
          | none => exact he hd
          | some v => simp [hd] at this)]
        exact c e he
  exact key _ st1 h1 h2 (fun e _ => h3 e)

end Stockpyl.Sim
