import StockpylModel.Model.Basic
namespace Stockpyl

theorem firstMinFrom_spec (best : Rat) (bi i : Nat) (l : List Rat) :
    (firstMinFrom best bi i l).1 ≤ best ∧ (∀ x ∈ l, (firstMinFrom best bi i l).1 ≤ x) ∧
    ((firstMinFrom best bi i l).1 = best ∨ (firstMinFrom best bi i l).1 ∈ l) := by
  induction l generalizing best bi i with
  | nil => simp [firstMinFrom]
  | cons x xs ih =>
    unfold firstMinFrom
    split
    · rename_i h
      obtain ⟨h1, h2, h3⟩ := ih x i (i+1)
      refine ⟨by grind, ?_, ?_⟩
      · intro y hy
        rcases List.mem_cons.mp hy with rfl | hy
        · exact h1
        · exact h2 y hy
      · rcases h3 with h3 | h3
        · right; rw [h3]; exact List.mem_cons_self
        · right; exact List.mem_cons_of_mem _ h3
    · rename_i h
      obtain ⟨h1, h2, h3⟩ := ih best bi (i+1)
      refine ⟨h1, ?_, ?_⟩
      · intro y hy
        rcases List.mem_cons.mp hy with rfl | hy
        · grind
        · exact h2 y hy
      · rcases h3 with h3 | h3
        · left; exact h3
        · right; exact List.mem_cons_of_mem _ h3

/-- The value returned by `firstMin` is a lower bound of the list and a member of it. -/
theorem firstMin_spec {l : List Rat} {v : Rat} {j : Nat} (h : firstMin l = some (v, j)) :
    (∀ x ∈ l, v ≤ x) ∧ v ∈ l := by
  cases l with
  | nil => simp [firstMin] at h
  | cons x xs =>
    simp only [firstMin, Option.some.injEq] at h
    obtain ⟨h1, h2, h3⟩ := firstMinFrom_spec x 0 1 xs
    rw [h] at h1 h2 h3
    simp only at h1 h2 h3
    constructor
    · intro y hy
      rcases List.mem_cons.mp hy with rfl | hy
      · exact h1
      · exact h2 y hy
    · rcases h3 with h3 | h3
      · rw [h3]; exact List.mem_cons_self
      · exact List.mem_cons_of_mem _ h3

theorem firstMin_isSome {l : List Rat} (h : l ≠ []) : ∃ v j, firstMin l = some (v, j) := by
  cases l with
  | nil => exact absurd rfl h
  | cons x xs => exact ⟨_, _, rfl⟩

/-- Index part of `firstMinFrom`: the returned index points at the returned value, and every
earlier element is strictly larger (first minimiser). `get i` reads absolute index `i`. -/
theorem firstMinFrom_index (best : Rat) (bi i : Nat) (l : List Rat) (pre : List Rat)
    (hi : pre.length = i) (hbi : bi < i) (hb : pre[bi]? = some best)
    (hfirst : ∀ k, k < bi → ∀ y, pre[k]? = some y → best < y)
    (hmin : ∀ y ∈ pre, best ≤ y) :
    let r := firstMinFrom best bi i l
    (pre ++ l)[r.2]? = some r.1 ∧ (∀ k, k < r.2 → ∀ y, (pre ++ l)[k]? = some y → r.1 < y) := by
  induction l generalizing best bi i pre with
  | nil =>
    simp only [firstMinFrom, List.append_nil]
    exact ⟨hb, hfirst⟩
  | cons x xs ih =>
    unfold firstMinFrom
    split
    · rename_i hlt
      have := ih x i (i+1) (pre ++ [x]) (by simp [hi]) (by omega)
        (by simp [← hi]) 
        (by
          intro k hk y hy
          have hk' : k < pre.length := by omega
          rw [List.getElem?_append_left hk'] at hy
          have := hmin y (List.mem_of_getElem? hy)
          grind)
        (by
          intro y hy
          rcases List.mem_append.mp hy with hy | hy
          · have := hmin y hy; grind
          · simp at hy; grind)
      simpa using this
    · rename_i hge
      have := ih best bi (i+1) (pre ++ [x]) (by simp [hi]) (by omega)
        (by rw [List.getElem?_append_left (by omega)]; exact hb)
        (by
          intro k hk y hy
          rw [List.getElem?_append_left (by omega)] at hy
          exact hfirst k hk y hy)
        (by
          intro y hy
          rcases List.mem_append.mp hy with hy | hy
          · exact hmin y hy
          · simp at hy; grind)
      simpa using this

theorem firstMin_index {l : List Rat} {v : Rat} {j : Nat} (h : firstMin l = some (v, j)) :
    l[j]? = some v ∧ (∀ k, k < j → ∀ y, l[k]? = some y → v < y) := by
  cases l with
  | nil => simp [firstMin] at h
  | cons x xs =>
    simp only [firstMin, Option.some.injEq] at h
    have := firstMinFrom_index x 0 1 xs [x] rfl (by omega) (by simp) (by intro k hk; omega)
      (by intro y hy; simp at hy; grind)
    rw [h] at this
    simpa using this

theorem lsum_append (a b : List Rat) : lsum (a ++ b) = lsum a + lsum b := by
  induction a with
  | nil => simp only [lsum, List.nil_append]; grind
  | cons x xs ih => simp only [lsum, List.cons_append, ih]; grind

end Stockpyl
